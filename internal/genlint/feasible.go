package genlint

import (
	"go/ast"
	"go/token"
	"strings"

	"cffverif/internal/astx"
)

// G38: the combinations the abstract expansion leaves out are refused by the compiler.
//
// The variant product of X omits what the compiler rejects: an End hook (SliceEnd / MapEnd) together with
// ContinueOnError, and FallbackWith on a task without an error result. If the rejection went away the templates
// would be expanded over combinations no rule has looked at (an End job that depends on element jobs which may
// have been skipped; a fallback assignment with no error to fall back from). The rule requires the three
// rejections to exist as what they are: a test of exactly that combination whose branch reports a diagnostic.
func (c *ctx) feasibility() {
	info := c.inter.TypesInfo
	type want struct {
		key    string
		fields []string
		found  bool
		pos    string
	}
	ws := []*want{
		{key: "compiler|SliceEnd with ContinueOnError is refused", fields: []string{"SliceEndFn", "ContinueOnError"}},
		{key: "compiler|MapEnd with ContinueOnError is refused", fields: []string{"MapEndFn", "ContinueOnError"}},
	}
	fbFound, fbPos := false, ""
	for _, fc := range c.files {
		if fc.pkg != c.inter {
			continue
		}
		fc := fc
		ast.Inspect(fc.file, func(nn ast.Node) bool {
			is, ok := nn.(*ast.IfStmt)
			if !ok || !c.reportsDiagnostic(is.Body) {
				return true
			}
			var cs []astx.Cond
			astx.Split(is.Cond, true, is, &cs)
			own := len(cs)
			// what the context has established as well (`if p.ContinueOnError == nil { return }` further up)
			if fd := fc.funcDecl(is); fd != nil {
				cs = append(cs, fc.par.Known(is, fd)...)
			}
			// fields tested `!= nil` in the conjunction
			nonNil := map[string]bool{}
			ownFields := map[string]bool{}
			ownOther := 0
			for i, cd := range cs {
				name := ""
				if e, isNil := astx.EqNil(info, cd.E); isNil && !cd.Pos {
					if se, ok := astx.Unparen(e).(*ast.SelectorExpr); ok {
						name = se.Sel.Name
						nonNil[name] = true
					}
				}
				if i < own {
					if name == "" {
						ownOther++
					} else {
						ownFields[name] = true
					}
				}
			}
			for _, w := range ws {
				all := true
				for _, f := range w.fields {
					all = all && nonNil[f]
				}
				// the branch's own condition restricts nothing beyond the combination
				extra := ownOther
				for f := range ownFields {
					isWanted := false
					for _, wf := range w.fields {
						isWanted = isWanted || wf == f
					}
					if !isWanted {
						extra++
					}
				}
				if all && extra == 0 {
					w.found, w.pos = true, c.pos(is)
				}
			}
			// FallbackWith without an error result: inside the handling of the "FallbackWith" option, a branch on
			// "no error result" (a negated boolean computed with the generator's error-type test) reports
			if own == 1 && !cs[0].Pos && c.inFallbackWithCase(fc, is) && c.aboutErrorResult(fc, cs[0].E) {
				fbFound, fbPos = true, c.pos(is)
			}
			return true
		})
	}
	for _, w := range ws {
		c.s.Check(w.found, "G38", w.key, w.pos, "tested as a combination, reported", "the compiler no longer refuses this combination: the abstract expansion leaves it out because the compiler rejects it, so the templates would be expanded over a case no rule has examined")
	}
	c.s.Check(fbFound, "G38", "compiler|FallbackWith on a task without an error result is refused", fbPos, "tested, reported", "the compiler no longer refuses FallbackWith on a task that cannot fail: the abstract expansion leaves that combination out because the compiler rejects it")
}

// inFallbackWithCase: the statement is inside `case "FallbackWith":` (or a function only called from there).
func (c *ctx) inFallbackWithCase(fc *fileCtx, n ast.Node) bool {
	for x := n; x != nil; x = fc.par[x] {
		if cc, ok := x.(*ast.CaseClause); ok {
			for _, e := range cc.List {
				if bl, ok := e.(*ast.BasicLit); ok && bl.Kind == token.STRING && strings.Contains(bl.Value, "FallbackWith") {
					return true
				}
			}
		}
		if fd, ok := x.(*ast.FuncDecl); ok {
			return strings.Contains(strings.ToLower(fd.Name.Name), "fallback")
		}
	}
	return false
}

// aboutErrorResult: e is a boolean computed from the function's results with the generator's error-type test: a
// call of a function whose name says so (isError, returnsError, ...), or a local set under such a call.
func (c *ctx) aboutErrorResult(fc *fileCtx, e ast.Expr) bool {
	info := c.inter.TypesInfo
	mentionsErrTest := func(n ast.Node) bool {
		found := false
		ast.Inspect(n, func(m ast.Node) bool {
			if call, ok := m.(*ast.CallExpr); ok {
				if fn := astx.Callee(info, call); fn != nil && fn.Pkg() == c.inter.Types && strings.Contains(strings.ToLower(fn.Name()), "error") {
					found = true
				}
			}
			return true
		})
		return found
	}
	e = astx.Unparen(e)
	if mentionsErrTest(e) {
		return true
	}
	id, ok := e.(*ast.Ident)
	if !ok {
		return false
	}
	obj := astx.ObjOf(info, id)
	fd := fc.funcDecl(id)
	if fd == nil || obj == nil {
		return false
	}
	found := false
	astx.Writes(fd.Body, func(l ast.Expr, at ast.Node) {
		if astx.IdentObj(info, l) != obj {
			return
		}
		// the assignment itself, or the conditions it stands under
		if mentionsErrTest(at) {
			found = true
		}
		for _, cd := range fc.par.Known(at, fd) {
			if mentionsErrTest(cd.E) {
				found = true
			}
		}
	})
	return found
}
