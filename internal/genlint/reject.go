package genlint

import (
	"fmt"
	"go/ast"
	"go/token"
	"go/types"
	"strings"

	"cffverif/internal/astx"
)

// G37: the compiler gives up on a directive (or a part of it) only with a diagnostic.
//
// The compile* / validate* methods of the compiler return nil for "this does not compile". The diagnostics they
// append are what makes cff refuse the input; a nil returned without one makes the caller skip the option or the
// task silently and cff exit 0 with something else than what the user wrote (mutation sweep: 34 of the 56
// surviving mutants of compile_parallel.go were deleted diagnostics). The rule: in every method of the compiler
// whose result is a pointer, a conditional `return nil` (one inside the body of an `if`) stands in a block that
// reports a diagnostic first, unless the condition only hands on a failure that was reported where it arose: a
// nil test of a value obtained from another method of the compiler, or a test of the recorded diagnostics
// themselves.
func (c *ctx) rejections() {
	n := 0
	info := c.inter.TypesInfo
	for _, fc := range c.files {
		if fc.pkg != c.inter {
			continue
		}
		fc := fc
		for _, d := range fc.file.Decls {
			fd, ok := d.(*ast.FuncDecl)
			if !ok || fd.Body == nil || fd.Recv == nil || len(fd.Recv.List) != 1 {
				continue
			}
			rt := info.TypeOf(fd.Recv.List[0].Type)
			if rt == nil || !strings.HasSuffix(strings.TrimPrefix(rt.String(), "*"), "internal.compiler") {
				continue
			}
			if fd.Type.Results == nil || len(fd.Type.Results.List) != 1 {
				continue
			}
			if _, isPtr := info.TypeOf(fd.Type.Results.List[0].Type).Underlying().(*types.Pointer); !isPtr {
				continue
			}
			// values obtained from other methods of the compiler in this function
			fromCompiler := map[types.Object]bool{}
			boolFrom := map[types.Object]*ast.CallExpr{}
			astx.Writes(fd.Body, func(l ast.Expr, at ast.Node) {
				as, ok := at.(*ast.AssignStmt)
				if !ok || len(as.Rhs) != 1 {
					return
				}
				call, ok := astx.Unparen(as.Rhs[0]).(*ast.CallExpr)
				if !ok {
					return
				}
				if fn := astx.Callee(info, call); fn != nil && fn.Pkg() == c.inter.Types {
					if sig, ok := fn.Type().(*types.Signature); ok && sig.Recv() != nil && strings.HasSuffix(sig.Recv().Type().String(), "internal.compiler") {
						if o := astx.IdentObj(info, l); o != nil {
							fromCompiler[o] = true
							if b, isB := o.Type().Underlying().(*types.Basic); isB && b.Kind() == types.Bool {
								boolFrom[o] = call
							}
						}
					}
				}
			})
			ord := 0
			ast.Inspect(fd.Body, func(nn ast.Node) bool {
				if _, isLit := nn.(*ast.FuncLit); isLit {
					return false
				}
				ret, ok := nn.(*ast.ReturnStmt)
				if !ok || len(ret.Results) != 1 || !astx.IsNil(info, ret.Results[0]) {
					return true
				}
				blk, ok := fc.par[ret].(*ast.BlockStmt)
				if !ok {
					return true
				}
				is, ok := fc.par[blk].(*ast.IfStmt)
				if !ok || is.Body != blk {
					return true // the function's last word, or a switch arm: not a conditional give-up of this form
				}
				n++
				ord++
				key := fmt.Sprintf("compiler.%s|give-up #%d reports or hands on a reported failure", fd.Name.Name, ord)
				if c.reportsDiagnostic(blk) {
					c.s.OK("G37", key, c.pos(ret), "diagnostic reported in the same block")
					return true
				}
				// not a give-up: the branch depends on the value of a constant argument (cff.Invoke(false)), nil is the
				// answer, not a failure
				onlyConstValue, sawConst := false, false
				{
					e := astx.Unparen(is.Cond)
					for {
						if u, ok := e.(*ast.UnaryExpr); ok {
							e = astx.Unparen(u.X)
							continue
						}
						break
					}
					if call, ok := e.(*ast.CallExpr); ok {
						if fn := astx.Callee(info, call); fn != nil && fn.Pkg() != nil && fn.Pkg().Path() == "go/constant" {
							onlyConstValue, sawConst = true, true
						}
					}
				}
				if onlyConstValue && sawConst {
					c.s.OK("G37", key, c.pos(ret), "depends on the value of a constant argument: nil is the answer, not a failure")
					return true
				}
				// propagation
				handedOn := false
				var cs []astx.Cond
				astx.Split(is.Cond, true, is, &cs)
				for _, cd := range cs {
					if e, isNil := astx.EqNil(info, cd.E); isNil && cd.Pos && fromCompiler[astx.IdentObj(info, e)] {
						handedOn = true
					}
					if strings.Contains(astx.Short(cd.E), ".errors") {
						handedOn = true
					}
				}
				// `if !ok` / `if !c.check(x)`: the verdict of another method of the compiler whose every
				// `return …, false` stands in a block or clause that reports a diagnostic first
				for _, cd := range cs {
					e := astx.Unparen(cd.E)
					if cd.Pos {
						u, isNot := e.(*ast.UnaryExpr)
						if !isNot || u.Op != token.NOT {
							continue
						}
						e = astx.Unparen(u.X)
					}
					var call *ast.CallExpr
					if ce, ok := e.(*ast.CallExpr); ok {
						call = ce
					} else if o := astx.IdentObj(info, e); o != nil && boolFrom[o] != nil {
						call = boolFrom[o]
					}
					if call != nil && c.falseMeansReported(call) {
						handedOn = true
					}
				}
				if as, ok := is.Init.(*ast.AssignStmt); ok && len(as.Rhs) == 1 {
					if call, ok := astx.Unparen(as.Rhs[0]).(*ast.CallExpr); ok {
						if fn := astx.Callee(info, call); fn != nil && fn.Pkg() == c.inter.Types {
							if sig, ok := fn.Type().(*types.Signature); ok && sig.Recv() != nil && strings.HasSuffix(sig.Recv().Type().String(), "internal.compiler") {
								handedOn = true
							}
						}
					}
				}
				c.s.Check(handedOn, "G37", key, c.pos(ret), "hands on a failure reported where it arose", "the compiler gives up here (`"+astx.Short(is.Cond)+"`) without reporting a diagnostic: the option or task is skipped silently and cff can exit 0 with code that is not what the directive says")
				return true
			})
		}
	}
	c.s.SetFact("genlint.give_ups", n)
}

// falseMeansReported: call is a call of a method of the compiler whose last result is a bool, and every
// return of that method whose last result is the literal `false` stands in a block or case clause that
// reports a diagnostic before it (the failure is reported where it arose).
func (c *ctx) falseMeansReported(call *ast.CallExpr) bool {
	info := c.inter.TypesInfo
	fn := astx.Callee(info, call)
	if fn == nil || fn.Pkg() != c.inter.Types {
		return false
	}
	sig, ok := fn.Type().(*types.Signature)
	if !ok || sig.Recv() == nil || !strings.HasSuffix(sig.Recv().Type().String(), "internal.compiler") || sig.Results().Len() == 0 {
		return false
	}
	if b, isB := sig.Results().At(sig.Results().Len() - 1).Type().Underlying().(*types.Basic); !isB || b.Kind() != types.Bool {
		return false
	}
	for _, fc := range c.files {
		d := astx.DeclOfFunc(info, []*ast.File{fc.file}, fn)
		if d == nil || d.Body == nil {
			continue
		}
		okAll, falses := true, 0
		ast.Inspect(d.Body, func(n ast.Node) bool {
			if _, isLit := n.(*ast.FuncLit); isLit {
				return false
			}
			ret, isRet := n.(*ast.ReturnStmt)
			if !isRet || len(ret.Results) == 0 {
				return true
			}
			last := astx.Unparen(ret.Results[len(ret.Results)-1])
			tv, known := info.Types[last]
			if !known || tv.Value == nil {
				okAll = false // a computed verdict: not decided here
				return true
			}
			if tv.Value.String() != "false" {
				return true
			}
			falses++
			var blk *ast.BlockStmt
			switch p := fc.par[ret].(type) {
			case *ast.BlockStmt:
				blk = p
			case *ast.CaseClause:
				blk = &ast.BlockStmt{List: p.Body}
			}
			if blk == nil || !c.reportsDiagnostic(blk) {
				okAll = false
			}
			return true
		})
		return okAll && falses > 0
	}
	return false
}
