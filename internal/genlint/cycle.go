package genlint

import (
	"go/ast"
	"go/token"
	"go/types"

	"cffverif/internal/astx"
)

// G26: discipline of the depth-first cycle search.
//
// The search is a recursive function that (i) compares the node it was asked about with the nodes on the
// current path and reports a cycle on a match, and (ii) skips nodes recorded in a memo. It is sound when
// the memo can only contain nodes whose whole subtree has been searched (the memo is written after all
// recursive calls: post-order). If the memo is written earlier, nodes that are still on the path are in
// it, and the search stays sound only if the on-path test is made first and uses the *same key* as the
// memo - otherwise a node reached a second time under a different key (a task entered through another of
// its outputs) is neither recognised as on the path nor searched again, and the cycle is missed.
func (c *ctx) cycleSearch() {
	// the recursive function reachable from validateFlowCycles
	fcV, fdV := c.findFunc(c.inter.PkgPath, "", "validateFlowCycles")
	if fdV == nil {
		c.s.Unk("G26", "validateFlowCycles", "", "function not found")
		return
	}
	var rec *ast.FuncDecl
	var rfc *fileCtx
	seen := map[*ast.FuncDecl]bool{}
	var visit func(fc *fileCtx, fd *ast.FuncDecl)
	visit = func(fc *fileCtx, fd *ast.FuncDecl) {
		if fd == nil || fd.Body == nil || seen[fd] {
			return
		}
		seen[fd] = true
		self, _ := fc.pkg.TypesInfo.Defs[fd.Name].(*types.Func)
		ast.Inspect(fd.Body, func(n ast.Node) bool {
			call, ok := n.(*ast.CallExpr)
			if !ok {
				return true
			}
			fn := astx.Callee(fc.pkg.TypesInfo, call)
			if fn == nil {
				return true
			}
			if fn == self {
				rec, rfc = fd, fc
			}
			for _, f2 := range c.files {
				if d := astx.DeclOfFunc(f2.pkg.TypesInfo, []*ast.File{f2.file}, fn); d != nil {
					visit(f2, d)
				}
			}
			return true
		})
	}
	visit(fcV, fdV)
	if rec == nil {
		c.s.Unk("G26", "cycle search", c.pos(fdV), "no recursive search function reachable from validateFlowCycles: the search discipline cannot be read off")
		return
	}
	info := rfc.pkg.TypesInfo
	self, _ := info.Defs[rec.Name].(*types.Func)
	// memo: a parameter (or captured variable) that is a map or *typeutil.Map, read and written with a key
	type access struct {
		key ast.Expr
		at  ast.Node
	}
	var memoReads, memoWrites []access
	var recCalls []*ast.CallExpr
	isMemo := func(e ast.Expr) bool {
		t := info.TypeOf(e)
		if t == nil {
			return false
		}
		if isMapType(t) {
			return true
		}
		s := t.String()
		return s == "*golang.org/x/tools/go/types/typeutil.Map" || s == "golang.org/x/tools/go/types/typeutil.Map"
	}
	ast.Inspect(rec.Body, func(n ast.Node) bool {
		switch x := n.(type) {
		case *ast.CallExpr:
			if fn := astx.Callee(info, x); fn != nil && fn == self {
				recCalls = append(recCalls, x)
			}
			if se, ok := x.Fun.(*ast.SelectorExpr); ok && isMemo(se.X) && len(x.Args) >= 1 {
				switch se.Sel.Name {
				case "At":
					memoReads = append(memoReads, access{x.Args[0], x})
				case "Set":
					memoWrites = append(memoWrites, access{x.Args[0], x})
				}
			}
		case *ast.IndexExpr:
			if isMemo(x.X) {
				if as, ok := rfc.par[x].(*ast.AssignStmt); ok {
					isL := false
					for _, l := range as.Lhs {
						if l == ast.Expr(x) {
							isL = true
						}
					}
					if isL {
						memoWrites = append(memoWrites, access{x.Index, as})
						return true
					}
				}
				memoReads = append(memoReads, access{x.Index, x})
			}
		}
		return true
	})
	// on-path test: inside a range over a slice parameter, a comparison (== or types.Identical) whose one
	// side is a field of the range element; the other side is the key
	var pathKey ast.Expr
	var pathTest ast.Node
	ast.Inspect(rec.Body, func(n ast.Node) bool {
		rs, ok := n.(*ast.RangeStmt)
		if !ok || rs.Value == nil {
			return true
		}
		ev := astx.IdentObj(info, rs.Value)
		fromElem := func(e ast.Expr) bool {
			e = astx.Unparen(e)
			if se, ok := e.(*ast.SelectorExpr); ok {
				return astx.IdentObj(info, se.X) == ev
			}
			return astx.IdentObj(info, e) == ev
		}
		ast.Inspect(rs.Body, func(m ast.Node) bool {
			switch x := m.(type) {
			case *ast.BinaryExpr:
				if x.Op == token.EQL {
					if fromElem(x.X) {
						pathKey, pathTest = x.Y, rs
					} else if fromElem(x.Y) {
						pathKey, pathTest = x.X, rs
					}
				}
			case *ast.CallExpr:
				if fn := astx.Callee(info, x); fn != nil && fn.FullName() == "go/types.Identical" && len(x.Args) == 2 {
					if fromElem(x.Args[0]) {
						pathKey, pathTest = x.Args[1], rs
					} else if fromElem(x.Args[1]) {
						pathKey, pathTest = x.Args[0], rs
					}
				}
			}
			return true
		})
		return true
	})
	if pathKey == nil {
		// the on-path test may be delegated to a helper taking (path, key): find it in the callee and map the
		// compared parameter back to the argument
		ast.Inspect(rec.Body, func(n ast.Node) bool {
			call, ok := n.(*ast.CallExpr)
			if !ok || pathKey != nil {
				return true
			}
			fn := astx.Callee(info, call)
			if fn == nil || fn == self {
				return true
			}
			for _, f2 := range c.files {
				d := astx.DeclOfFunc(f2.pkg.TypesInfo, []*ast.File{f2.file}, fn)
				if d == nil || d.Body == nil {
					continue
				}
				i2 := f2.pkg.TypesInfo
				var params []types.Object
				for _, fl := range d.Type.Params.List {
					for _, nm := range fl.Names {
						params = append(params, i2.Defs[nm])
					}
				}
				ast.Inspect(d.Body, func(m ast.Node) bool {
					rs, ok := m.(*ast.RangeStmt)
					if !ok || rs.Value == nil {
						return true
					}
					ev := astx.IdentObj(i2, rs.Value)
					fromElem := func(e ast.Expr) bool {
						e = astx.Unparen(e)
						if se, ok := e.(*ast.SelectorExpr); ok {
							return astx.IdentObj(i2, se.X) == ev
						}
						return astx.IdentObj(i2, e) == ev
					}
					other := func(a, b ast.Expr) ast.Expr {
						if fromElem(a) {
							return b
						}
						if fromElem(b) {
							return a
						}
						return nil
					}
					ast.Inspect(rs.Body, func(q ast.Node) bool {
						var o ast.Expr
						switch x := q.(type) {
						case *ast.BinaryExpr:
							if x.Op == token.EQL {
								o = other(x.X, x.Y)
							}
						case *ast.CallExpr:
							if f3 := astx.Callee(i2, x); f3 != nil && f3.FullName() == "go/types.Identical" && len(x.Args) == 2 {
								o = other(x.Args[0], x.Args[1])
							}
						}
						if o != nil {
							po := astx.IdentObj(i2, o)
							for k, p := range params {
								if p == po && k < len(call.Args) {
									pathKey, pathTest = call.Args[k], call
								}
							}
						}
						return true
					})
					return true
				})
			}
			return true
		})
	}
	key := rfc.funcName(rec) + "|memo discipline of the cycle search"
	if len(recCalls) == 0 || pathKey == nil {
		c.s.Unk("G26", key, c.pos(rec), "the recursive search has no recognisable on-path test (a loop over the path comparing each entry with the node searched)")
		return
	}
	if len(memoWrites) == 0 {
		c.s.OK("G26", key, c.pos(rec), "no memo: every node is searched on every visit")
		return
	}
	c.memoLifetime(rfc, rec, memoWrites[0].at)
	// post-order: every memo write comes after every recursive call and is not inside a loop that contains one
	postOrder := true
	for _, w := range memoWrites {
		for _, rc := range recCalls {
			if w.at.Pos() < rc.End() {
				postOrder = false
			}
		}
		if l := rfc.par.InLoop(w.at); l != nil {
			for _, rc := range recCalls {
				if rfc.par.Within(rc, l) {
					postOrder = false
				}
			}
		}
	}
	if postOrder {
		c.s.OK("G26", key, c.pos(memoWrites[0].at), "the memo is written only after all recursive calls returned: it holds only fully searched nodes")
		return
	}
	// pre-order memo: same key as the on-path test, and the on-path test first
	same := func(a, b ast.Expr) bool {
		oa, ob := astx.IdentObj(info, a), astx.IdentObj(info, b)
		return oa != nil && oa == ob
	}
	good := true
	why := ""
	for _, w := range memoWrites {
		if !same(w.key, pathKey) {
			good, why = false, "the memo is keyed by `"+astx.Short(w.key)+"` while the on-path test compares `"+astx.Short(pathKey)+"`"
		}
	}
	for _, r := range memoReads {
		if !same(r.key, pathKey) {
			good, why = false, "the memo is looked up by `"+astx.Short(r.key)+"` while the on-path test compares `"+astx.Short(pathKey)+"`"
		}
		if r.at.Pos() < pathTest.Pos() {
			good, why = false, "the memo is consulted before the on-path test"
		}
	}
	c.s.Check(good, "G26", key, c.pos(memoWrites[0].at), "the memo is written before the subtree is searched, but the on-path test comes first and uses the memo's key", "the memo is written before the node's subtree has been searched and "+why+": a node that is still on the path can be skipped as `already checked`, so a cycle that re-enters it under the other key is not reported (cff then recurses without bound in toposort or generates code for a cyclic flow)")
}

// memoLifetime: the memo of the cycle search is keyed by type (or function), but whether a type leads into a cycle
// depends on the flow searched (its provider table; predicate sentinels are numbered per flow). The memo must
// therefore be created for the search of ONE flow: traced from the recursive search up through the callers, it must
// end in a local variable of a function that works on one flow (takes the flow), not in a field of a longer-lived
// object or a package-level variable.
func (c *ctx) memoLifetime(rfc *fileCtx, rec *ast.FuncDecl, write ast.Node) {
	info := c.inter.TypesInfo
	key := rfc.funcName(rec) + "|the memo of the cycle search lives for the search of one flow"
	// the memo object in rec: the root identifier of the written expression
	var memoObj types.Object
	switch w := write.(type) {
	case *ast.CallExpr:
		if se, ok := w.Fun.(*ast.SelectorExpr); ok {
			memoObj = astx.IdentObj(info, se.X)
		}
	case *ast.AssignStmt:
		for _, l := range w.Lhs {
			if ix, ok := astx.Unparen(l).(*ast.IndexExpr); ok {
				memoObj = astx.IdentObj(info, ix.X)
			}
		}
	}
	if memoObj == nil {
		// a field of a search object (`cf.visited`): the memo lives as long as that object; the object must be
		// built per flow - every composite literal of its type stands in a function that takes the flow
		var fieldOwner *types.Named
		var memoField *types.Var
		var root ast.Expr
		switch w := write.(type) {
		case *ast.CallExpr:
			if se, ok := w.Fun.(*ast.SelectorExpr); ok {
				root = se.X
			}
		case *ast.AssignStmt:
			for _, l := range w.Lhs {
				if ix, ok := astx.Unparen(l).(*ast.IndexExpr); ok {
					root = ix.X
				}
			}
		}
		if root != nil {
			if base, f, ok := astx.FieldSel(info, root); ok {
				memoField = f
				bt := info.TypeOf(base)
				if p, ok := bt.(*types.Pointer); ok {
					bt = p.Elem()
				}
				fieldOwner, _ = bt.(*types.Named)
			}
		}
		if fieldOwner == nil || fieldOwner.Obj().Pkg() != c.inter.Types {
			c.s.Unk("G26", key, c.pos(write), "the memo written here is not a variable, a parameter or a field of a search object of the package")
			return
		}
		lits, bad := 0, ""
		for _, fc := range c.files {
			if fc.pkg != c.inter {
				continue
			}
			fc := fc
			ast.Inspect(fc.file, func(n ast.Node) bool {
				cl, ok := n.(*ast.CompositeLit)
				if !ok {
					return true
				}
				t := info.TypeOf(cl)
				if nt, ok := t.(*types.Named); !ok || nt != fieldOwner {
					return true
				}
				lits++
				fd := fc.funcDecl(cl)
				takes := false
				if fd != nil {
					for _, f := range fd.Type.Params.List {
						pt := info.TypeOf(f.Type)
						if p, ok := pt.(*types.Pointer); ok {
							pt = p.Elem()
						}
						if n, ok := pt.(*types.Named); ok && n.Obj().Name() == "flow" && n.Obj().Pkg() == c.inter.Types {
							takes = true
						}
					}
				}
				if !takes {
					bad = c.pos(cl)
				}
				// the memo field must not be filled from outside
				for _, el := range cl.Elts {
					if kv, ok := el.(*ast.KeyValueExpr); ok {
						if id, ok := kv.Key.(*ast.Ident); ok && id.Name == memoField.Name() {
							bad = c.pos(kv)
						}
					}
				}
				return true
			})
		}
		switch {
		case lits == 0:
			c.s.Unk("G26", key, c.pos(write), "no construction of the search object "+fieldOwner.Obj().Name()+" found")
		case bad != "":
			c.s.Bad("G26", key, bad, "the memo of the cycle search is a field of "+fieldOwner.Obj().Name()+", which is built outside the search of one flow (or is handed a memo from outside): it is keyed by type, but whether a type leads into a cycle depends on the flow searched; an entry left by one flow makes the search of a later flow skip a subtree, and a cycle there is not reported")
		default:
			c.s.OK("G26", key, c.pos(write), "the memo is a field of "+fieldOwner.Obj().Name()+", built empty in a function that works on one flow")
		}
		return
	}
	takesFlow := func(fd *ast.FuncDecl) bool {
		for _, f := range fd.Type.Params.List {
			t := info.TypeOf(f.Type)
			if p, ok := t.(*types.Pointer); ok {
				t = p.Elem()
			}
			if n, ok := t.(*types.Named); ok && n.Obj().Name() == "flow" && n.Obj().Pkg() == c.inter.Types {
				return true
			}
		}
		return false
	}
	paramIndex := func(fd *ast.FuncDecl, obj types.Object) int {
		k := 0
		for _, f := range fd.Type.Params.List {
			for _, nm := range f.Names {
				if info.Defs[nm] == obj {
					return k
				}
				k++
			}
		}
		return -1
	}
	type verdict struct {
		ok  bool
		why string
		at  ast.Node
	}
	var trace func(fd *ast.FuncDecl, obj types.Object, depth int) []verdict
	trace = func(fd *ast.FuncDecl, obj types.Object, depth int) []verdict {
		idx := paramIndex(fd, obj)
		if idx < 0 {
			// a local of fd
			if takesFlow(fd) {
				return []verdict{{true, "a local variable of " + fd.Name.Name + ", which works on one flow", fd}}
			}
			return []verdict{{false, "a variable of " + fd.Name.Name + ", which is not called per flow", fd}}
		}
		if depth > 4 {
			return []verdict{{false, "the origin of the memo could not be traced", fd}}
		}
		self, _ := info.Defs[fd.Name].(*types.Func)
		var out []verdict
		for _, fc := range c.files {
			if fc.pkg != c.inter {
				continue
			}
			for _, d := range fc.file.Decls {
				caller, ok := d.(*ast.FuncDecl)
				if !ok || caller.Body == nil || caller == fd {
					continue
				}
				ast.Inspect(caller.Body, func(n ast.Node) bool {
					call, ok := n.(*ast.CallExpr)
					if !ok || astx.Callee(info, call) != self || idx >= len(call.Args) {
						return true
					}
					e := astx.Unparen(call.Args[idx])
					if u, ok := e.(*ast.UnaryExpr); ok {
						e = astx.Unparen(u.X)
					}
					switch x := e.(type) {
					case *ast.Ident:
						o := astx.ObjOf(info, x)
						if v, ok := o.(*types.Var); ok && v.Parent() == c.inter.Types.Scope() {
							out = append(out, verdict{false, "the package-level variable " + x.Name, call})
							return true
						}
						out = append(out, trace(caller, o, depth+1)...)
					case *ast.SelectorExpr:
						out = append(out, verdict{false, "the field " + astx.Short(x) + ", which lives as long as its object", call})
					default:
						out = append(out, verdict{false, "the expression " + astx.Short(e), call})
					}
					return true
				})
			}
		}
		if len(out) == 0 {
			out = append(out, verdict{false, "no caller of " + fd.Name.Name + " found", fd})
		}
		return out
	}
	vs := trace(rec, memoObj, 0)
	for _, v := range vs {
		if !v.ok {
			c.s.Bad("G26", key, c.pos(v.at), "the memo of the cycle search is "+v.why+": it is keyed by type, but whether a type leads into a cycle depends on the flow searched; an entry left by one flow makes the search of a later flow skip a subtree, and a cycle there is not reported (cff then loops in toposort or generates code for a cyclic flow)")
			return
		}
	}
	c.s.OK("G26", key, c.pos(vs[0].at), "the memo is "+vs[0].why)
}
