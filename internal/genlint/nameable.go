package genlint

import (
	"fmt"
	"go/ast"
	"go/types"

	"cffverif/internal/astx"
)

// G33: the types the generated code declares variables and parameters of can be named where that code is placed.
//
// A value can be held without its type being nameable: a value of another package's unexported type, of a
// package-level type whose name means something else inside the user's function, of a function-local type or a
// type parameter when the code is generated at the top level of the file (modifier mode). cff exited 0 and the
// output did not type-check (finding F12, repaired). The repair walks every type handed to the type printer. The
// rule requires that
//
//	(a) a nameability check exists: a function of the generator that takes a types.Type, looks names up in a scope
//	    ((*types.Scope).LookupParent / Parent) and asks whether a type name is exported;
//	(b) every type printer - a function (literal) that calls types.TypeString with a qualifier on its own
//	    parameter - calls the check (directly or through a helper of the generator) on that parameter,
//	    unconditionally, before printing;
//	(c) what the check finds is stored in a field of the generator that the driver of that generator
//	    (generateFlow/generateParallel; generatorv2.GenerateFile) reads back through a call whose error ends the
//	    driver, after the templates were executed and before the output is written.
func (c *ctx) typeNameability() {
	info := c.inter.TypesInfo
	isTypesType := func(t types.Type) bool { return t != nil && t.String() == "go/types.Type" }
	// (a)
	var checks []*ast.FuncDecl
	for _, fc := range c.files {
		if fc.pkg != c.inter {
			continue
		}
		for _, d := range fc.file.Decls {
			fd, ok := d.(*ast.FuncDecl)
			if !ok || fd.Body == nil {
				continue
			}
			takesType := false
			for _, f := range fd.Type.Params.List {
				if isTypesType(info.TypeOf(f.Type)) {
					takesType = true
				}
			}
			scope, exported := false, false
			c.eachReachedBody(fd, 2, func(body *ast.BlockStmt) {
				ast.Inspect(body, func(n ast.Node) bool {
					if call, ok := n.(*ast.CallExpr); ok {
						switch fn := astx.Callee(info, call); {
						case fn == nil:
						case fullName(fn) == "(*go/types.Scope).LookupParent" || fn.Name() == "Parent" && fn.Pkg() != nil && fn.Pkg().Path() == "go/types":
							scope = true
						case fn.Name() == "Exported" && fn.Pkg() != nil && fn.Pkg().Path() == "go/types":
							exported = true
						}
					}
					return true
				})
			})
			if takesType && scope && exported {
				checks = append(checks, fd)
			}
		}
	}
	if len(checks) == 0 {
		c.s.Bad("G33", "generator|type nameability check exists", "", "no function of the generator checks that the types it prints can be named where the generated code is placed (unexported type of another package, a name that means something else at the directive, a local type or type parameter in top-level code): cff exits 0 and the output does not compile")
		return
	}
	c.s.OK("G33", "generator|type nameability check exists", c.pos(checks[0]), "walks the type: scope lookup and export status of every named type")
	// the walk reaches the named types inside composite types: a type switch over the kinds of go/types
	for _, ch := range checks {
		covered := map[string]bool{}
		c.eachReachedBody(ch, 2, func(body *ast.BlockStmt) {
			ast.Inspect(body, func(n ast.Node) bool {
				switch x := n.(type) {
				case *ast.TypeSwitchStmt:
					for _, cs := range x.Body.List {
						for _, te := range cs.(*ast.CaseClause).List {
							if t := info.TypeOf(te); t != nil {
								covered[t.String()] = true
							}
						}
					}
				case *ast.TypeAssertExpr:
					if x.Type != nil {
						if t := info.TypeOf(x.Type); t != nil {
							covered[t.String()] = true
						}
					}
				}
				return true
			})
		})
		var missing []string
		for _, k := range []string{"Named", "TypeParam", "Pointer", "Slice", "Array", "Chan", "Map", "Signature", "Struct"} {
			if !covered["*go/types."+k] {
				missing = append(missing, k)
			}
		}
		c.s.Check(len(missing) == 0, "G33", ch.Name.Name+"|the walk covers the composite kinds of go/types", c.pos(ch), "Named, TypeParam and the element/field/parameter types of Pointer, Slice, Array, Chan, Map, Signature, Struct", fmt.Sprintf("types of kind %v are not inspected: an unnameable type inside one of them reaches the generated code unchecked", missing))
	}
	declOf := func(fn *types.Func) *ast.FuncDecl {
		if fn == nil || fn.Pkg() != c.inter.Types {
			return nil
		}
		for _, f2 := range c.files {
			if d := astx.DeclOfFunc(info, []*ast.File{f2.file}, fn); d != nil && d.Body != nil {
				return d
			}
		}
		return nil
	}
	isCheckDecl := func(d *ast.FuncDecl) bool {
		for _, ch := range checks {
			if ch == d {
				return true
			}
		}
		return false
	}
	// reaches: the call hands (the resolved) arg on to a check, directly or through a helper that passes its own
	// parameter to the check unconditionally
	var reaches func(call *ast.CallExpr, arg types.Object, depth int) bool
	reaches = func(call *ast.CallExpr, arg types.Object, depth int) bool {
		d := declOf(astx.Callee(info, call))
		if d == nil || depth > 2 {
			return false
		}
		// which parameter receives arg
		var param types.Object
		k := 0
		for _, f := range d.Type.Params.List {
			for _, nm := range f.Names {
				if k < len(call.Args) && astx.IdentObj(info, call.Args[k]) == arg {
					param = info.Defs[nm]
				}
				k++
			}
		}
		if param == nil {
			return false
		}
		if isCheckDecl(d) {
			return true
		}
		found := false
		for _, st := range d.Body.List {
			for _, inner := range topCalls(st) {
				if reaches(inner, param, depth+1) {
					found = true
				}
			}
		}
		return found
	}
	// (b)
	type printer struct {
		fc    *fileCtx
		node  ast.Node // *ast.FuncLit or *ast.FuncDecl
		body  *ast.BlockStmt
		label string
		check *ast.CallExpr
	}
	var printers []printer
	for _, fc := range c.files {
		if fc.pkg != c.inter {
			continue
		}
		fc := fc
		ast.Inspect(fc.file, func(n ast.Node) bool {
			call, ok := n.(*ast.CallExpr)
			if !ok || fullName(astx.Callee(info, call)) != "go/types.TypeString" || len(call.Args) != 2 {
				return true
			}
			if id, ok := astx.Unparen(call.Args[1]).(*ast.Ident); ok && id.Name == "nil" {
				return true // no qualifier: text for comments, not code
			}
			obj := astx.IdentObj(info, call.Args[0])
			if obj == nil {
				c.s.Unk("G33", fc.funcName(call)+"|type printed", c.pos(call), "types.TypeString is applied to something other than a parameter")
				return true
			}
			// the enclosing function (literal) that declares obj as a parameter
			var encl ast.Node
			var body *ast.BlockStmt
			for x := ast.Node(call); x != nil; x = fc.par[x] {
				var ft *ast.FuncType
				switch f := x.(type) {
				case *ast.FuncLit:
					ft, body = f.Type, f.Body
				case *ast.FuncDecl:
					ft, body = f.Type, f.Body
				default:
					continue
				}
				for _, f := range ft.Params.List {
					for _, nm := range f.Names {
						if info.Defs[nm] == obj {
							encl = x
						}
					}
				}
				if encl != nil {
					break
				}
			}
			if encl == nil {
				c.s.Unk("G33", fc.funcName(call)+"|type printed", c.pos(call), "the printed type is not a parameter of an enclosing function")
				return true
			}
			p := printer{fc: fc, node: encl, body: body, label: fc.funcName(call) + "|type printer"}
			for _, st := range body.List {
				if st.Pos() >= call.Pos() {
					break
				}
				for _, inner := range topCalls(st) {
					if reaches(inner, obj, 0) {
						p.check = inner
					}
				}
			}
			printers = append(printers, p)
			return true
		})
	}
	if len(printers) == 0 {
		c.s.Unk("G33", "generator|type printers", "", "no call of types.TypeString with a qualifier found")
		return
	}
	for _, p := range printers {
		c.s.Check(p.check != nil, "G33", p.label+" checks the type it prints", c.pos(p.node), "nameability of every named type inside is checked first", "a type is printed into generated code without the nameability check: a value of an unexported, shadowed or function-local type makes cff emit code that does not compile while exiting 0")
	}
	// (c)
	for _, p := range printers {
		if p.check == nil {
			continue
		}
		// fields written with what the check returned: in the printer itself or in the helper it calls
		written := map[*types.Var]bool{}
		record := func(body *ast.BlockStmt) {
			astx.Writes(body, func(l ast.Expr, at ast.Node) {
				e := astx.Unparen(l)
				if ix, ok := e.(*ast.IndexExpr); ok {
					e = ix.X
				}
				if _, f, ok := astx.FieldSel(info, e); ok {
					written[f] = true
				}
			})
		}
		record(p.body)
		if d := declOf(astx.Callee(info, p.check)); d != nil {
			// the helper the printer calls (a wrapper of the check, or the check itself), and what that helper
			// records through (`g.noteHidden(name, err)`)
			c.eachReachedBody(d, 1, record)
		}
		if len(written) == 0 {
			c.s.Bad("G33", p.label+" keeps what the check finds", c.pos(p.check), "the result of the nameability check is not stored in the generator: it has no effect")
			continue
		}
		// the struct that owns the field, and its drivers
		var owner string
		// the generator struct that holds the field, directly or in a struct-valued part (`g.use.hidden`)
		holds := func(st *types.Struct, f *types.Var, depth int) bool { return false }
		holds = func(st *types.Struct, f *types.Var, depth int) bool {
			for i := 0; i < st.NumFields(); i++ {
				if st.Field(i) == f {
					return true
				}
				ft := st.Field(i).Type()
				if p, ok := ft.Underlying().(*types.Pointer); ok {
					ft = p.Elem()
				}
				if n, ok := ft.(*types.Named); ok && n.Obj().Pkg() == c.inter.Types && depth < 2 {
					if inner, ok := n.Underlying().(*types.Struct); ok && holds(inner, f, depth+1) {
						return true
					}
				}
			}
			return false
		}
		for f := range written {
			for _, name := range []string{"generator", "generatorv2"} {
				if tn, ok := c.inter.Types.Scope().Lookup(name).(*types.TypeName); ok {
					if st, ok := tn.Type().Underlying().(*types.Struct); ok && holds(st, f, 0) {
						owner = name
					}
				}
			}
		}
		drivers := map[string][]string{"generator": {"generateFlow", "generateParallel"}, "generatorv2": {"GenerateFile"}}[owner]
		if len(drivers) == 0 {
			c.s.Unk("G33", p.label+" errors are returned", c.pos(p.check), "the field the check's result is stored in does not belong to generator or generatorv2")
			continue
		}
		readsWritten := func(d *ast.FuncDecl) bool {
			found := false
			ast.Inspect(d.Body, func(n ast.Node) bool {
				if se, ok := n.(*ast.SelectorExpr); ok {
					if _, f, ok := astx.FieldSel(info, se); ok && written[f] {
						found = true
					}
				}
				return true
			})
			return found
		}
		for _, dn := range drivers {
			fc, fd := c.findFunc(c.inter.PkgPath, owner, dn)
			if fd == nil {
				c.s.Unk("G33", owner+"."+dn, "", "function not found")
				continue
			}
			finfo := fc.pkg.TypesInfo
			var wObj types.Object
			for _, f := range fd.Type.Params.List {
				if t := finfo.TypeOf(f.Type); t != nil && t.String() == "io.Writer" && len(f.Names) == 1 {
					wObj = finfo.Defs[f.Names[0]]
				}
			}
			idxExec, idxCollected, idxWrite := -1, -1, -1
			for i, ic := range astx.CallsInlined(finfo, fc.pkg.Syntax, fd, 2) {
				call := ic.Call
				fn := astx.Callee(finfo, call)
				se, _ := call.Fun.(*ast.SelectorExpr)
				if se != nil && (se.Sel.Name == "ExecuteTemplate" || se.Sel.Name == "GenImpl") {
					idxExec = i // the last rendering that can reach the printer
					if owner == "generator" && idxCollected < 0 && idxWrite < 0 {
						continue
					}
				}
				if idxExec < 0 {
					continue
				}
				entered := false
				if d := declOf(fn); d != nil && len(ic.Chain) < 2 {
					entered = true
				}
				if idxWrite < 0 && !entered {
					switch {
					case fullName(fn) == "os.WriteFile":
						idxWrite = i
					case wObj != nil:
						for _, a := range call.Args {
							if o := astx.IdentObj(finfo, ic.Resolve(a)); o != nil && o == wObj {
								idxWrite = i
							}
						}
						if se != nil {
							if o := astx.IdentObj(finfo, ic.Resolve(se.X)); o != nil && o == wObj {
								idxWrite = i
							}
						}
					}
				}
				if idxCollected < 0 {
					if d := declOf(fn); d != nil && readsWritten(d) {
						handedOn := c.errorHandedOn(call)
						for _, site := range ic.Chain {
							handedOn = handedOn && c.errorHandedOn(site)
						}
						if handedOn {
							idxCollected = i
						}
					}
				}
			}
			good := idxCollected >= 0 && (idxWrite < 0 || idxCollected < idxWrite)
			if owner == "generatorv2" {
				// every GenImpl call precedes the collection
				good = good && idxExec >= 0 && idxExec < idxCollected
			}
			c.s.Check(good, "G33", fmt.Sprintf("%s.%s|unnameable types are reported before the output is written (%s)", owner, dn, p.label), c.pos(fd), "", "what the nameability check recorded is not read back and returned between rendering and writing the output: the check has no effect")
		}
	}
}

// eachReachedBody calls f with the body of fd and of the functions of the generator it calls (methods and
// functions declared in the package), up to the given depth.
func (c *ctx) eachReachedBody(fd *ast.FuncDecl, depth int, f func(body *ast.BlockStmt)) {
	info := c.inter.TypesInfo
	seen := map[*ast.FuncDecl]bool{}
	var walk func(d *ast.FuncDecl, k int)
	walk = func(d *ast.FuncDecl, k int) {
		if d == nil || d.Body == nil || seen[d] {
			return
		}
		seen[d] = true
		f(d.Body)
		if k == 0 {
			return
		}
		ast.Inspect(d.Body, func(n ast.Node) bool {
			call, ok := n.(*ast.CallExpr)
			if !ok {
				return true
			}
			fn := astx.Callee(info, call)
			if fn == nil || fn.Pkg() != c.inter.Types {
				return true
			}
			for _, f2 := range c.files {
				if d2 := astx.DeclOfFunc(info, []*ast.File{f2.file}, fn); d2 != nil {
					walk(d2, k-1)
				}
			}
			return true
		})
	}
	walk(fd, depth)
}

// topCalls: the calls a statement makes at its own level (not inside nested function literals or nested
// blocks): `f(x)`, `v := f(x)`, `for _, e := range f(x) {`.
func topCalls(st ast.Stmt) []*ast.CallExpr {
	var roots []ast.Node
	switch s := st.(type) {
	case *ast.ExprStmt:
		roots = append(roots, s.X)
	case *ast.AssignStmt:
		for _, r := range s.Rhs {
			roots = append(roots, r)
		}
	case *ast.RangeStmt:
		roots = append(roots, s.X)
	case *ast.DeclStmt:
		roots = append(roots, s)
	}
	var out []*ast.CallExpr
	for _, r := range roots {
		ast.Inspect(r, func(n ast.Node) bool {
			if _, ok := n.(*ast.FuncLit); ok {
				return false
			}
			if c, ok := n.(*ast.CallExpr); ok {
				out = append(out, c)
			}
			return true
		})
	}
	return out
}
