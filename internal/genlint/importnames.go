package genlint

import (
	"go/ast"
	"go/token"
	"go/types"

	"cffverif/internal/astx"
)

// G45: the import names handed to the templates are names code can use.
//
// The compiler records, per import path, the names the file imports the package under; the "import" template
// function hands the first one to the templates, which write `<name>.Now()`. `import _ "time"` and `import .
// "context"` are imports too: recorded like the others they made the generated code say `_.Now()` (finding F19,
// repaired). The rule requires that the names "_" and "." are kept out: where the import table of the file object
// is filled (a store into its map[string][]string field) an earlier test of the name against both literals leaves
// the clause, or - the other place a repair can take - every function literal registered as "import" makes that
// test before it hands a recorded name out.
func (c *ctx) importNames() {
	info := c.inter.TypesInfo
	// tests: the block contains, before `before`, if-statements comparing something with the literals "_" and "."
	// whose bodies leave (return / continue / break)
	filters := func(fc *fileCtx, blockOf ast.Node, before token.Pos) bool {
		seen := map[string]bool{}
		var list []ast.Stmt
		switch b := blockOf.(type) {
		case *ast.BlockStmt:
			list = b.List
		case *ast.CaseClause:
			list = b.Body
		}
		for _, st := range list {
			if st.Pos() >= before {
				break
			}
			if sw, ok := st.(*ast.SwitchStmt); ok {
				// `switch name { case "_", ".": return }`
				for _, cl := range sw.Body.List {
					cc := cl.(*ast.CaseClause)
					if !astx.Terminates(&ast.BlockStmt{List: cc.Body}) {
						continue
					}
					for _, e := range cc.List {
						if bl, ok := astx.Unparen(e).(*ast.BasicLit); ok && bl.Kind == token.STRING {
							seen[bl.Value] = true
						}
					}
				}
				continue
			}
			is, ok := st.(*ast.IfStmt)
			if !ok || !astx.Terminates(is.Body) {
				continue
			}
			ast.Inspect(is.Cond, func(n ast.Node) bool {
				if bl, ok := n.(*ast.BasicLit); ok && bl.Kind == token.STRING {
					seen[bl.Value] = true
				}
				return true
			})
		}
		return seen[`"_"`] && seen[`"."`]
	}
	n := 0
	for _, fc := range c.files {
		if fc.pkg != c.inter {
			continue
		}
		fc := fc
		astx.Writes(fc.file, func(l ast.Expr, at ast.Node) {
			ix, ok := astx.Unparen(l).(*ast.IndexExpr)
			if !ok {
				return
			}
			_, f, ok := astx.FieldSel(info, ix.X)
			if !ok || f.Name() != "Imports" {
				return
			}
			if mt, ok := f.Type().Underlying().(*types.Map); !ok || mt.Key().String() != "string" {
				return
			}
			n++
			good := false
			for x := ast.Node(at); x != nil; x = fc.par[x] {
				switch x.(type) {
				case *ast.BlockStmt, *ast.CaseClause:
					if filters(fc, x, at.Pos()) {
						good = true
					}
				}
			}
			how := "the names `_` and `.` leave the clause before the table is filled"
			if !good {
				// the other place: every "import" template function filters
				lits, ok2 := 0, true
				for _, f2 := range c.files {
					if f2.pkg != c.inter {
						continue
					}
					f2 := f2
					ast.Inspect(f2.file, func(m ast.Node) bool {
						kv, ok := m.(*ast.KeyValueExpr)
						if !ok {
							return true
						}
						if bl, ok := kv.Key.(*ast.BasicLit); !ok || bl.Value != `"import"` {
							return true
						}
						body, _ := c.funcBodyOf(kv.Value)
						if body == nil {
							return true
						}
						lits++
						seen := map[string]bool{}
						ast.Inspect(body, func(k ast.Node) bool {
							if bl, ok := k.(*ast.BasicLit); ok && bl.Kind == token.STRING {
								seen[bl.Value] = true
							}
							return true
						})
						if !seen[`"_"`] || !seen[`"."`] {
							ok2 = false
						}
						return true
					})
				}
				if lits > 0 && ok2 {
					good, how = true, "every \"import\" template function tests the recorded name against `_` and `.`"
				}
			}
			c.s.Check(good, "G45", fc.funcName(at)+"|blank and dot imports are not recorded as names of the package", c.pos(at), how, "the name of every import declaration is recorded as a name of the package, `_` and `.` included, and the first recorded name is what the templates qualify with: for a file with `import _ \"time\"` the generated code says `_.Now()` - cff exits 0, the output does not compile")
		})
	}
	if n == 0 {
		c.s.Unk("G45", "compiler|import table of the file", "", "no store into a map field named Imports found")
	}
}
