package genlint

import (
	"fmt"
	"go/ast"
	"go/token"
	"go/types"

	"cffverif/internal/astx"
)

// G32: the accounting that rejects "provided twice by cff.Params and by a task" and "cff.Params value nothing
// consumes" is intact, and no acceptance decision depends on the order of the options.
//
//	(a) The validator that walks the graph keeps the table of cff.Params values not yet consumed (a
//	    typeutil.Map filled from flow.Inputs). An entry may be removed only for a type that has NO task
//	    provider (the removal is on the failed-lookup path of providers.At for the same key) - a type with
//	    both a Params value and a task provider must stay in the table - and
//	(b) whatever is left after the walk is reported.
//	(c) In compileFlow's loop over the options, a diagnostic must not be conditional on what *other*
//	    options have contributed to the flow so far (flow.Inputs, flow.Tasks, providers, ...): such a check
//	    sees only the options listed earlier, so the same ill-formed flow is rejected or accepted depending
//	    on how its options are ordered. (Seed C14_j replaced (a)/(b)'s indirect rejection by such a check.)
func (c *ctx) inputAccounting() {
	info := c.inter.TypesInfo
	fc, fd := c.findFunc(c.inter.PkgPath, "compiler", "validateFuncs")
	if fd == nil {
		c.s.Unk("G32", "compiler.validateFuncs", "", "function not found")
	} else {
		// the unused-inputs table: a local typeutil.Map that receives Set(<x>.Type, <x>) in a range over <flow>.Inputs
		var table types.Object
		ast.Inspect(fd.Body, func(n ast.Node) bool {
			rs, ok := n.(*ast.RangeStmt)
			if !ok {
				return true
			}
			if se, ok := astx.Unparen(rs.X).(*ast.SelectorExpr); !ok || se.Sel.Name != "Inputs" {
				return true
			}
			ast.Inspect(rs.Body, func(m ast.Node) bool {
				if call, ok := m.(*ast.CallExpr); ok {
					if se, ok := call.Fun.(*ast.SelectorExpr); ok && se.Sel.Name == "Set" {
						if o := astx.IdentObj(info, se.X); o != nil {
							table = o
						}
					}
				}
				return true
			})
			return true
		})
		if table == nil {
			// ... or a local initialised by a helper that builds and returns that table
			ast.Inspect(fd.Body, func(n ast.Node) bool {
				var lhs []ast.Expr
				var rhs []ast.Expr
				switch x := n.(type) {
				case *ast.AssignStmt:
					lhs, rhs = x.Lhs, x.Rhs
				case *ast.ValueSpec:
					for _, nm := range x.Names {
						lhs = append(lhs, nm)
					}
					rhs = x.Values
				default:
					return true
				}
				if len(lhs) != len(rhs) {
					return true
				}
				for i, r := range rhs {
					call, ok := astx.Unparen(r).(*ast.CallExpr)
					if !ok {
						continue
					}
					fn := astx.Callee(info, call)
					if fn == nil || fn.Pkg() != c.inter.Types {
						continue
					}
					for _, f2 := range c.files {
						d := astx.DeclOfFunc(info, []*ast.File{f2.file}, fn)
						if d == nil || d.Body == nil {
							continue
						}
						fills := false
						ast.Inspect(d.Body, func(m ast.Node) bool {
							rs, ok := m.(*ast.RangeStmt)
							if !ok {
								return true
							}
							if se, ok := astx.Unparen(rs.X).(*ast.SelectorExpr); ok && se.Sel.Name == "Inputs" {
								ast.Inspect(rs.Body, func(k ast.Node) bool {
									if c2, ok := k.(*ast.CallExpr); ok {
										if se, ok := c2.Fun.(*ast.SelectorExpr); ok && se.Sel.Name == "Set" {
											fills = true
										}
									}
									return true
								})
							}
							return true
						})
						if fills {
							if id, ok := lhs[i].(*ast.Ident); ok {
								table = astx.ObjOf(info, id)
							}
						}
					}
				}
				return true
			})
		}
		if table == nil {
			c.s.Unk("G32", "compiler.validateFuncs|table of unconsumed Params", c.pos(fd), "no table filled from flow.Inputs found")
		} else {
			nDel := 0
			ast.Inspect(fd.Body, func(n ast.Node) bool {
				call, ok := n.(*ast.CallExpr)
				if !ok {
					return true
				}
				se, ok := call.Fun.(*ast.SelectorExpr)
				if !ok || se.Sel.Name != "Delete" || astx.IdentObj(info, se.X) != table || len(call.Args) != 1 {
					return true
				}
				nDel++
				key := "compiler.validateFuncs|a Params value is consumed only where no task provides its type#" + fmt.Sprint(nDel)
				// a failed providers.At(<same key>) dominates the removal
				good := false
				for _, cd := range fc.par.Known(call, fd) {
					if cd.Pos {
						continue
					}
					// the condition is the `ok` of `x, ok := <recv>.providers.At(k).(T)`
					id, isId := astx.Unparen(cd.E).(*ast.Ident)
					if !isId {
						continue
					}
					obj := astx.ObjOf(info, id)
					ast.Inspect(fd.Body, func(m ast.Node) bool {
						as, ok := m.(*ast.AssignStmt)
						if !ok || len(as.Lhs) != 2 || len(as.Rhs) != 1 || astx.IdentObj(info, as.Lhs[1]) != obj {
							return true
						}
						if c.isProviderLookup(as.Rhs[0], call.Args[0], 0) {
							good = true
						}
						return true
					})
				}
				c.s.Check(good, "G32", key, c.pos(call), "removal on the no-provider path", "a cff.Params value is struck off the unused list although a task may provide the same type: a type provided twice (by cff.Params and by a task) is no longer reported, and the generated code declares its variable twice")
				return true
			})
			if nDel == 0 {
				c.s.Unk("G32", "compiler.validateFuncs|consumption of Params values", c.pos(fd), "the table of unconsumed Params is never reduced")
			}
			// (b) leftovers reported: an errf inside a range that reads the table (Keys / Iterate) after the walk
			reported := false
			ast.Inspect(fd.Body, func(n ast.Node) bool {
				is, ok := n.(*ast.IfStmt)
				if !ok {
					return true
				}
				uses := false
				ast.Inspect(is.Cond, func(m ast.Node) bool {
					if id, ok := m.(*ast.Ident); ok && astx.ObjOf(info, id) == table {
						uses = true
					}
					return true
				})
				if !uses {
					return true
				}
				ast.Inspect(is.Body, func(m ast.Node) bool {
					if call, ok := m.(*ast.CallExpr); ok {
						if se, ok := call.Fun.(*ast.SelectorExpr); ok && se.Sel.Name == "errf" {
							reported = true
						}
					}
					return true
				})
				return true
			})
			// ... or handed to a helper that reports
			ast.Inspect(fd.Body, func(n ast.Node) bool {
				call, ok := n.(*ast.CallExpr)
				if !ok {
					return true
				}
				given := false
				for _, a := range call.Args {
					ast.Inspect(a, func(m ast.Node) bool {
						if id, ok := m.(*ast.Ident); ok && astx.ObjOf(info, id) == table {
							given = true
						}
						return true
					})
				}
				if !given {
					return true
				}
				if fn := astx.Callee(info, call); fn != nil && fn.Pkg() == c.inter.Types {
					for _, f2 := range c.files {
						if d := astx.DeclOfFunc(info, []*ast.File{f2.file}, fn); d != nil && d.Body != nil {
							ast.Inspect(d.Body, func(m ast.Node) bool {
								if c2, ok := m.(*ast.CallExpr); ok {
									if se, ok := c2.Fun.(*ast.SelectorExpr); ok && se.Sel.Name == "errf" {
										reported = true
									}
								}
								return true
							})
						}
					}
				}
				return true
			})
			c.s.Check(reported, "G32", "compiler.validateFuncs|unconsumed Params values are reported", c.pos(fd), "", "what is left in the table of unconsumed cff.Params values after the walk is not reported")
		}
	}
	// (c) order-dependent diagnostics in the option loop of compileFlow
	fc2, cf := c.findFunc(c.inter.PkgPath, "compiler", "compileFlow")
	if cf == nil {
		c.s.Unk("G32", "compiler.compileFlow", "", "function not found")
		return
	}
	// the loop over the directive's arguments and the flow under construction
	// (a range over call.Args[1:], or any for/range loop whose body dispatches on option names: a switch
	// with a string case "Task")
	var loop ast.Node
	var loopBody *ast.BlockStmt
	dispatches := func(b *ast.BlockStmt) bool {
		found := false
		ast.Inspect(b, func(n ast.Node) bool {
			if cc, ok := n.(*ast.CaseClause); ok {
				for _, e := range cc.List {
					if bl, ok := astx.Unparen(e).(*ast.BasicLit); ok && bl.Kind == token.STRING && bl.Value == `"Task"` {
						found = true
					}
				}
			}
			return !found
		})
		return found
	}
	ast.Inspect(cf.Body, func(n ast.Node) bool {
		if loop != nil {
			return false
		}
		switch l := n.(type) {
		case *ast.RangeStmt:
			if sl, ok := astx.Unparen(l.X).(*ast.SliceExpr); ok {
				if se, ok := astx.Unparen(sl.X).(*ast.SelectorExpr); ok && se.Sel.Name == "Args" {
					loop, loopBody = l, l.Body
					return false
				}
			}
			if dispatches(l.Body) {
				loop, loopBody = l, l.Body
			}
		case *ast.ForStmt:
			if dispatches(l.Body) {
				loop, loopBody = l, l.Body
			}
		}
		return true
	})
	if loop == nil {
		c.s.Unk("G32", "compiler.compileFlow|option loop", c.pos(cf), "no range over the directive's arguments found")
		return
	}
	var flowObj types.Object
	ast.Inspect(cf.Body, func(n ast.Node) bool {
		if as, ok := n.(*ast.AssignStmt); ok && as.Tok == token.DEFINE && len(as.Lhs) == 1 && as.Pos() < loop.Pos() {
			if cl, ok := astx.Unparen(as.Rhs[0]).(*ast.CompositeLit); ok {
				if on := ownerNamed(info.TypeOf(cl)); on != nil && on.Obj().Name() == "flow" {
					flowObj = astx.IdentObj(info, as.Lhs[0])
				}
			}
		}
		return true
	})
	if flowObj == nil {
		c.s.Unk("G32", "compiler.compileFlow|flow under construction", c.pos(cf), "the flow literal was not found")
		return
	}
	nBad := 0
	readsFlow := func(e ast.Node, depth int) bool { return c.readsAccumulated(fc2, e, flowObj, depth) }
	ast.Inspect(loopBody, func(n ast.Node) bool {
		call, ok := n.(*ast.CallExpr)
		if !ok {
			return true
		}
		se, ok := call.Fun.(*ast.SelectorExpr)
		if !ok || se.Sel.Name != "errf" {
			return true
		}
		for _, cd := range fc2.par.Known(call, loop) {
			if !fc2.par.Within(cd.At, loopBody) {
				continue
			}
			// conditions introduced by `if v := f(flow...); cond(v)` count through their init statement
			dep := readsFlow(cd.E, 0)
			if is, ok := cd.At.(*ast.IfStmt); ok && is.Init != nil && !dep {
				dep = readsFlow(is.Init, 0)
			}
			if dep {
				nBad++
				c.s.Bad("G32", fmt.Sprintf("compiler.compileFlow|diagnostic of the option loop independent of the other options#%d", nBad), c.pos(call), "a diagnostic in the loop over the options is conditional on what the other options have contributed to the flow so far (`"+astx.Short(cd.E)+"`): it sees only the options listed before this one, so the same ill-formed flow is rejected or accepted depending on the order of its options")
				break
			}
		}
		return true
	})
	if nBad == 0 {
		c.s.OK("G32", "compiler.compileFlow|diagnostics of the option loop are independent of the other options", c.pos(loop), "no diagnostic in the loop is conditional on the flow accumulated so far")
	}
}

// readsAccumulated: the expression reads a slice/map field of the flow under construction (directly, or in
// a method of the flow called with it as receiver).
func (c *ctx) readsAccumulated(fc *fileCtx, e ast.Node, flowObj types.Object, depth int) bool {
	info := fc.pkg.TypesInfo
	found := false
	ast.Inspect(e, func(n ast.Node) bool {
		switch x := n.(type) {
		case *ast.SelectorExpr:
			if astx.IdentObj(info, x.X) == flowObj {
				if _, f, ok := astx.FieldSel(info, x); ok {
					switch f.Type().Underlying().(type) {
					case *types.Slice, *types.Map:
						found = true
					default:
						if on := ownerNamed(f.Type()); on != nil && on.Obj().Name() == "Map" {
							found = true // typeutil.Map
						}
					}
				}
			}
		case *ast.CallExpr:
			if depth < 2 {
				if se, ok := x.Fun.(*ast.SelectorExpr); ok && astx.IdentObj(info, se.X) == flowObj {
					if fn := astx.Callee(info, x); fn != nil && fn.Pkg() == c.inter.Types {
						for _, f2 := range c.files {
							if d := astx.DeclOfFunc(info, []*ast.File{f2.file}, fn); d != nil && d.Body != nil && d.Recv != nil && len(d.Recv.List[0].Names) == 1 {
								if c.readsAccumulated(f2, d.Body, info.Defs[d.Recv.List[0].Names[0]], depth+1) {
									found = true
								}
							}
						}
					}
				}
			}
		}
		return true
	})
	return found
}

// isProviderLookup: e is `<x>.providers.At(key).(T)` (comma-ok form on the caller's side), or a call of a
// package-local function that is given the key and whose boolean result is the ok of such a lookup of its
// parameter.
func (c *ctx) isProviderLookup(e ast.Expr, key ast.Expr, depth int) bool {
	info := c.inter.TypesInfo
	e = astx.Unparen(e)
	if ta, ok := e.(*ast.TypeAssertExpr); ok {
		at, ok := astx.Unparen(ta.X).(*ast.CallExpr)
		if !ok || len(at.Args) != 1 {
			return false
		}
		if s2, ok := at.Fun.(*ast.SelectorExpr); ok && s2.Sel.Name == "At" {
			if s3, ok := astx.Unparen(s2.X).(*ast.SelectorExpr); ok && s3.Sel.Name == "providers" && astx.Same(info, at.Args[0], key) {
				return true
			}
		}
		return false
	}
	call, ok := e.(*ast.CallExpr)
	if !ok || depth > 1 {
		return false
	}
	fn := astx.Callee(info, call)
	if fn == nil || fn.Pkg() != c.inter.Types {
		return false
	}
	argIdx := -1
	for i, a := range call.Args {
		if astx.Same(info, a, key) {
			argIdx = i
		}
	}
	if argIdx < 0 {
		return false
	}
	for _, f2 := range c.files {
		d := astx.DeclOfFunc(info, []*ast.File{f2.file}, fn)
		if d == nil || d.Body == nil {
			continue
		}
		var params []*ast.Ident
		for _, f := range d.Type.Params.List {
			params = append(params, f.Names...)
		}
		if argIdx >= len(params) {
			return false
		}
		// ok := the comma-ok of a provider lookup of that parameter
		var okObj types.Object
		ast.Inspect(d.Body, func(n ast.Node) bool {
			if as, ok := n.(*ast.AssignStmt); ok && len(as.Lhs) == 2 && len(as.Rhs) == 1 && c.isProviderLookup(as.Rhs[0], params[argIdx], depth+1) {
				okObj = astx.IdentObj(info, as.Lhs[1])
			}
			return true
		})
		if okObj == nil {
			return false
		}
		// every return reports that ok
		good, nret := true, 0
		ast.Inspect(d.Body, func(n ast.Node) bool {
			ret, isRet := n.(*ast.ReturnStmt)
			if !isRet || len(ret.Results) == 0 {
				return true
			}
			nret++
			last := ret.Results[len(ret.Results)-1]
			if astx.IdentObj(info, last) == okObj {
				return true
			}
			want, isConst := false, false
			if astx.IsBoolConst(info, last, true) {
				want, isConst = true, true
			} else if astx.IsBoolConst(info, last, false) {
				want, isConst = false, true
			}
			if !isConst {
				good = false
				return true
			}
			known := false
			for _, cd := range f2.par.Known(ret, d) {
				if astx.IdentObj(info, cd.E) == okObj && cd.Pos == want {
					known = true
				}
			}
			if !known {
				good = false
			}
			return true
		})
		return good && nret > 0
	}
	return false
}
