package genlint

import (
	"go/ast"
	"go/token"
	"go/types"

	"cffverif/internal/astx"
)

// G31: package names used by generated code are checked for visibility where the directive stands.
//
// The generated closure is inlined into the user's function and names packages (time, debug, context, cff,
// the qualifiers of user types). A parameter or local called like one of them captures the reference and
// the output does not type-check while cff exits 0 (finding F11, repaired). The repair looks every such name
// up in the scope of the directive (types.Scope.LookupParent). The rule requires that
//
//	(a) a visibility check exists: a package-local function whose body calls (*types.Scope).LookupParent;
//	(b) every function literal of the base-mode generator that hands a package name to the templates - the
//	    "import" entry of the FuncMap and the types.Qualifier of the type printer - calls it before every
//	    return of a non-empty name;
//	(c) generateFlow and generateParallel ask for the recorded errors after executing the body template
//	    and return them (before anything is written to the output).
func (c *ctx) packageVisibility() {
	info := c.inter.TypesInfo
	// (a)
	var checks []*ast.FuncDecl
	for _, fc := range c.files {
		if fc.pkg != c.inter {
			continue
		}
		for _, d := range fc.file.Decls {
			fd, ok := d.(*ast.FuncDecl)
			if !ok || fd.Body == nil {
				continue
			}
			found := false
			ast.Inspect(fd.Body, func(n ast.Node) bool {
				if call, ok := n.(*ast.CallExpr); ok && fullName(astx.Callee(info, call)) == "(*go/types.Scope).LookupParent" {
					found = true
				}
				return true
			})
			if found {
				checks = append(checks, fd)
			}
		}
	}
	if len(checks) == 0 {
		c.s.Bad("G31", "generator|visibility check exists", "", "no function of the generator looks a name up in the scope of the directive (types.Scope.LookupParent): a parameter or local variable named like a package the generated code refers to (time, debug, context, cff, a type's package) captures the reference - cff exits 0 and the output does not compile")
		return
	}
	isCheck := func(call *ast.CallExpr) bool {
		fn := astx.Callee(info, call)
		if fn == nil {
			return false
		}
		for _, fd := range checks {
			if info.Defs[fd.Name] == fn {
				return true
			}
		}
		return false
	}
	c.s.OK("G31", "generator|visibility check exists", c.pos(checks[0]), "scope lookup at the directive's position")
	// (b) name-producing literals of generator.funcMap and generator.typePrinter
	type producer struct {
		body *ast.BlockStmt
		node ast.Node
	}
	var lits []producer
	var where []string
	type cand struct {
		fc   *fileCtx
		fd   *ast.FuncDecl
		name string
	}
	var cands []cand
	for _, name := range []string{"funcMap", "typePrinter"} {
		fc, fd := c.findFunc(c.inter.PkgPath, "generator", name)
		if fd == nil {
			c.s.Unk("G31", "generator."+name, "", "function not found")
			continue
		}
		cands = append(cands, cand{fc, fd, name})
	}
	// methods of helper structs that hold the generator (`typeQualifier{g *generator}`): the printer moved there
	for _, fc := range c.files {
		if fc.pkg != c.inter {
			continue
		}
		for _, d := range fc.file.Decls {
			fd, ok := d.(*ast.FuncDecl)
			if !ok || fd.Body == nil || fd.Recv == nil || len(fd.Recv.List) == 0 {
				continue
			}
			rt := info.TypeOf(fd.Recv.List[0].Type)
			if p, ok := rt.(*types.Pointer); ok {
				rt = p.Elem()
			}
			nt, _ := rt.(*types.Named)
			if nt == nil || nt.Obj().Name() == "generator" || nt.Obj().Name() == "generatorv2" {
				continue
			}
			st, _ := nt.Underlying().(*types.Struct)
			holds := false
			for i := 0; st != nil && i < st.NumFields(); i++ {
				ft := st.Field(i).Type()
				if p, ok := ft.(*types.Pointer); ok {
					ft = p.Elem()
				}
				if n2, ok := ft.(*types.Named); ok && n2.Obj().Name() == "generator" && n2.Obj().Pkg() == c.inter.Types {
					holds = true
				}
			}
			if holds {
				cands = append(cands, cand{fc, fd, nt.Obj().Name() + "." + fd.Name.Name})
			}
		}
	}
	for _, cd := range cands {
		fc, fd, name := cd.fc, cd.fd, cd.name
		ast.Inspect(fd.Body, func(n ast.Node) bool {
			switch x := n.(type) {
			case *ast.KeyValueExpr:
				if bl, ok := x.Key.(*ast.BasicLit); ok && bl.Value == `"import"` {
					if body, node := c.funcBodyOf(x.Value); body != nil {
						lits = append(lits, producer{body, node})
						where = append(where, "generator."+name+`|"import"`)
					}
				}
			case *ast.CallExpr:
				if fullName(astx.Callee(fc.pkg.TypesInfo, x)) == "go/types.TypeString" && len(x.Args) == 2 {
					arg := x.Args[1]
					if id, ok := astx.Unparen(arg).(*ast.Ident); ok {
						// a local holding the qualifier: its single definition
						obj := astx.ObjOf(fc.pkg.TypesInfo, id)
						astx.Writes(fd.Body, func(l ast.Expr, at ast.Node) {
							if astx.IdentObj(fc.pkg.TypesInfo, l) == obj {
								if as, ok := at.(*ast.AssignStmt); ok && len(as.Lhs) == len(as.Rhs) {
									for i := range as.Lhs {
										if as.Lhs[i] == l {
											arg = as.Rhs[i]
										}
									}
								}
							}
						})
					}
					if body, node := c.funcBodyOf(arg); body != nil {
						lits = append(lits, producer{body, node})
						where = append(where, "generator."+name+"|type qualifier")
					}
				}
			}
			return true
		})
	}
	if len(lits) < 2 {
		c.s.Unk("G31", "generator|package-name producers", "", "the \"import\" template function and the type printer's qualifier were not both found")
	}
	// unchecked: the position of a return that hands out a non-empty name without a preceding check ("" = none)
	var unchecked func(body *ast.BlockStmt, root ast.Node, depth int) string
	unchecked = func(body *ast.BlockStmt, root ast.Node, depth int) string {
		fc := c.fileOf(body)
		bad := ""
		ast.Inspect(body, func(n ast.Node) bool {
			if inner, ok := n.(*ast.FuncLit); ok && ast.Node(inner) != root {
				return false
			}
			ret, ok := n.(*ast.ReturnStmt)
			if !ok || len(ret.Results) != 1 {
				return true
			}
			if tv, ok := info.Types[ret.Results[0]]; ok && tv.Value != nil && tv.Value.ExactString() == `""` {
				return true // no qualifier: same package
			}
			// delegated to a package-local function: its returns are judged instead
			if call, ok := astx.Unparen(ret.Results[0]).(*ast.CallExpr); ok && depth < 2 {
				if fn := astx.Callee(info, call); fn != nil && fn.Pkg() == c.inter.Types {
					for _, f2 := range c.files {
						if d := astx.DeclOfFunc(info, []*ast.File{f2.file}, fn); d != nil && d.Body != nil {
							// only for helpers that hand out names themselves (they contain a check); plain string helpers
							// such as printImportAlias are judged at this return
							has := false
							ast.Inspect(d.Body, func(m ast.Node) bool {
								if c2, ok := m.(*ast.CallExpr); ok && isCheck(c2) {
									has = true
								}
								return true
							})
							if has {
								if b := unchecked(d.Body, d, depth+1); b != "" {
									bad = b
								}
								return true
							}
						}
					}
				}
			}
			// a check call earlier on the way to this return: in the same block or an enclosing one, before it
			checked := false
			for x := ast.Node(ret); x != nil && x != root; x = fc.par[x] {
				blk, ok := fc.par[x].(*ast.BlockStmt)
				if !ok {
					continue
				}
				for _, st := range blk.List {
					if st.Pos() >= x.Pos() {
						break
					}
					if es, ok := st.(*ast.ExprStmt); ok {
						if call, ok := es.X.(*ast.CallExpr); ok && isCheck(call) {
							checked = true
						}
					}
				}
			}
			if !checked {
				bad = c.pos(ret)
			}
			return true
		})
		return bad
	}
	for i, fl := range lits {
		bad := unchecked(fl.body, fl.node, 0)
		c.s.Check(bad == "", "G31", where[i]+" checks the name it returns", c.pos(fl.node), "every non-empty package name handed to the templates is looked up in the directive's scope first", "a package name is handed to the templates (return at "+bad+") without the visibility check: a local declaration of that name captures the generated reference")
	}
	// (c)
	for _, name := range []string{"generateFlow", "generateParallel"} {
		fc, fd := c.findFunc(c.inter.PkgPath, "generator", name)
		if fd == nil {
			c.s.Unk("G31", "generator."+name, "", "function not found")
			continue
		}
		finfo := fc.pkg.TypesInfo
		// positions in the inlined call sequence: the first ExecuteTemplate (the body, wherever it is rendered),
		// the collector call in this function, the first later call that is handed the output parameter
		var wObj interface{}
		for _, f := range fd.Type.Params.List {
			if t := finfo.TypeOf(f.Type); t != nil && t.String() == "io.Writer" && len(f.Names) == 1 {
				wObj = finfo.Defs[f.Names[0]]
			}
		}
		idxExec, idxCollected, idxWrite := -1, -1, -1
		for i, ic := range astx.CallsInlined(finfo, fc.pkg.Syntax, fd, 2) {
			call := ic.Call
			se, _ := call.Fun.(*ast.SelectorExpr)
			if se != nil && se.Sel.Name == "ExecuteTemplate" && idxExec < 0 {
				idxExec = i
				continue
			}
			if idxExec < 0 {
				continue
			}
			entered := false
			if fn := astx.Callee(finfo, call); fn != nil && len(ic.Chain) < 2 {
				if d := astx.DeclOfFunc(finfo, fc.pkg.Syntax, fn); d != nil && d.Body != nil {
					entered = true // a helper of the package: its own calls follow in the sequence
				}
			}
			if idxWrite < 0 && !entered {
				for _, a := range call.Args {
					if o := astx.IdentObj(finfo, ic.Resolve(a)); o != nil && interface{}(o) == wObj {
						idxWrite = i
					}
				}
				if se != nil {
					if o := astx.IdentObj(finfo, ic.Resolve(se.X)); o != nil && interface{}(o) == wObj {
						idxWrite = i
					}
				}
			}
			// the collector: a call in this function whose error result is tested and which reads what the check wrote
			// (in this function, or in a helper entered from it whose error every caller on the way hands on)
			if idxCollected < 0 {
				if fn := astx.Callee(finfo, call); fn != nil && fn.Pkg() == c.inter.Types {
					for _, f2 := range c.files {
						if d := astx.DeclOfFunc(finfo, []*ast.File{f2.file}, fn); d != nil && d.Body != nil && c.sharesFieldWith(d, checks) {
							handedOn := c.errorHandedOn(call)
							for _, site := range ic.Chain {
								handedOn = handedOn && c.errorHandedOn(site)
							}
							if handedOn {
								idxCollected = i
							}
						}
					}
				}
			}
		}
		exec, collected, firstWrite := token.Pos(idxExec+1), token.Pos(idxCollected+1), token.Pos(idxWrite+1)
		good := exec.IsValid() && collected.IsValid() && (!firstWrite.IsValid() || collected < firstWrite)
		c.s.Check(good, "G31", "generator."+name+"|recorded visibility errors are returned before the output is written", c.pos(fd), "", "the errors recorded by the visibility check are not collected and returned after the body template was executed (and before the first write to the output): the check has no effect")
	}
}

// errorHandedOn: the error result of the call ends the calling function when it is not nil: the call is returned as
// it is, or it is the initialiser of an `if err := call(); err != nil { return ... }`.
func (c *ctx) errorHandedOn(call *ast.CallExpr) bool {
	fc := c.fileOf(call)
	if fc == nil {
		return false
	}
	var p ast.Node = fc.par[call]
	for {
		if pe, ok := p.(*ast.ParenExpr); ok {
			p = fc.par[pe]
			continue
		}
		break
	}
	if ret, ok := p.(*ast.ReturnStmt); ok && len(ret.Results) == 1 {
		return true
	}
	if is, ok := fc.par.Enclosing(call, func(n ast.Node) bool { _, ok := n.(*ast.IfStmt); return ok }).(*ast.IfStmt); ok && is.Init != nil && fc.par.Within(call, is.Init) && astx.Terminates(is.Body) {
		// ... and what the branch returns is not the literal nil
		for _, st := range is.Body.List {
			if ret, ok := st.(*ast.ReturnStmt); ok && len(ret.Results) > 0 && astx.IsNil(fc.pkg.TypesInfo, ret.Results[len(ret.Results)-1]) {
				return false
			}
		}
		return true
	}
	// `v, err := call(...)` directly followed by `if err != nil { return ..., err }`
	if as, ok := p.(*ast.AssignStmt); ok && len(as.Rhs) == 1 {
		info := fc.pkg.TypesInfo
		var errObj types.Object
		for _, l := range as.Lhs {
			if id, ok := l.(*ast.Ident); ok && id.Name != "_" {
				if t := info.TypeOf(id); t != nil && t.String() == "error" {
					errObj = astx.ObjOf(info, id)
				}
			}
		}
		if blk, ok := fc.par[as].(*ast.BlockStmt); ok && errObj != nil {
			for i, st := range blk.List {
				if st != ast.Stmt(as) || i+1 >= len(blk.List) {
					continue
				}
				is, ok := blk.List[i+1].(*ast.IfStmt)
				if !ok || is.Init != nil || !astx.Terminates(is.Body) {
					return false
				}
				be, isBin := astx.Unparen(is.Cond).(*ast.BinaryExpr)
				if !isBin || be.Op != token.NEQ {
					return false
				}
				var e ast.Expr
				switch {
				case astx.IsNil(info, be.Y):
					e = be.X
				case astx.IsNil(info, be.X):
					e = be.Y
				default:
					return false
				}
				if astx.IdentObj(info, e) != errObj {
					return false
				}
				for _, st := range is.Body.List {
					if ret, ok := st.(*ast.ReturnStmt); ok && len(ret.Results) > 0 && astx.IsNil(info, ret.Results[len(ret.Results)-1]) {
						return false
					}
				}
				return true
			}
		}
	}
	return false
}

// sharesFieldWith: d reads a struct field that one of the check functions writes (the place where the check
// records its errors).
func (c *ctx) sharesFieldWith(d *ast.FuncDecl, checks []*ast.FuncDecl) bool {
	info := c.inter.TypesInfo
	written := map[interface{}]bool{}
	for _, ch := range checks {
		// in the check itself, or in a helper it records its finding through (`g.noteHidden(name, err)`)
		c.eachReachedBody(ch, 1, func(body *ast.BlockStmt) {
			astx.Writes(body, func(l ast.Expr, at ast.Node) {
				e := astx.Unparen(l)
				if ix, ok := e.(*ast.IndexExpr); ok {
					e = ix.X
				}
				if _, f, ok := astx.FieldSel(info, e); ok {
					written[f] = true
				}
			})
		})
	}
	found := false
	ast.Inspect(d.Body, func(n ast.Node) bool {
		if se, ok := n.(*ast.SelectorExpr); ok {
			if _, f, ok := astx.FieldSel(info, se); ok && written[f] {
				found = true
			}
		}
		return true
	})
	return found
}

// funcBodyOf: the body of the function an expression denotes: a function literal (possibly the one a package
// function returns), a method value (`ip.printImport`) or a function of the package.
func (c *ctx) funcBodyOf(e ast.Expr) (*ast.BlockStmt, ast.Node) {
	if fl := c.funcLitOf(e, 0); fl != nil {
		return fl.Body, fl
	}
	info := c.inter.TypesInfo
	var fn *types.Func
	switch x := astx.Unparen(e).(type) {
	case *ast.SelectorExpr:
		if sel := info.Selections[x]; sel != nil && sel.Kind() == types.MethodVal {
			fn, _ = sel.Obj().(*types.Func)
		} else {
			fn, _ = info.Uses[x.Sel].(*types.Func)
		}
	case *ast.Ident:
		fn, _ = info.Uses[x].(*types.Func)
	}
	if fn == nil || fn.Pkg() != c.inter.Types {
		return nil, nil
	}
	for _, f2 := range c.files {
		if d := astx.DeclOfFunc(info, []*ast.File{f2.file}, fn); d != nil && d.Body != nil {
			return d.Body, d
		}
	}
	return nil, nil
}

// funcLitOf: the function literal an expression denotes: the literal itself, or the one a package-local
// function returns (`"import": g.importPrinter(file, ...)`).
func (c *ctx) funcLitOf(e ast.Expr, depth int) *ast.FuncLit {
	if fl, ok := astx.Unparen(e).(*ast.FuncLit); ok {
		return fl
	}
	call, ok := astx.Unparen(e).(*ast.CallExpr)
	if !ok || depth > 2 {
		return nil
	}
	fn := astx.Callee(c.inter.TypesInfo, call)
	if fn == nil || fn.Pkg() != c.inter.Types {
		return nil
	}
	for _, f2 := range c.files {
		d := astx.DeclOfFunc(c.inter.TypesInfo, []*ast.File{f2.file}, fn)
		if d == nil || d.Body == nil {
			continue
		}
		var out *ast.FuncLit
		n := 0
		ast.Inspect(d.Body, func(m ast.Node) bool {
			if _, isLit := m.(*ast.FuncLit); isLit {
				return false
			}
			if ret, ok := m.(*ast.ReturnStmt); ok && len(ret.Results) == 1 {
				n++
				out = c.funcLitOf(ret.Results[0], depth+1)
			}
			return true
		})
		if n == 1 {
			return out
		}
	}
	return nil
}
