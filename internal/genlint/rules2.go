package genlint

import (
	"fmt"
	"go/ast"
	"go/token"
	"go/types"
	"strings"

	"cffverif/internal/astx"
)

var fsMutators = map[string]bool{
	"os.WriteFile": true, "os.Create": true, "os.OpenFile": true, "os.Rename": true, "os.Remove": true, "os.RemoveAll": true, "os.Mkdir": true, "os.MkdirAll": true,
	"os.CreateTemp": true, "os.MkdirTemp": true, "os.Chmod": true, "os.Truncate": true, "os.Symlink": true, "os.Link": true, "os.Chtimes": true,
	"io/ioutil.WriteFile": true, "io/ioutil.TempFile": true, "io/ioutil.TempDir": true,
}

// errNilKnown: conds contain `<ident> == nil` (pos) / != nil where ident was assigned from a call to callee.
func (c *ctx) errFrom(fc *fileCtx, cond astx.Cond, calleeSuffix string) bool {
	info := fc.pkg.TypesInfo
	e, ok := astx.EqNil(info, cond.E)
	if !ok {
		return false
	}
	o := astx.IdentObj(info, e)
	if o == nil {
		return false
	}
	// find the assignment that precedes the test: in cond.At's Init or any earlier assignment in the function to o whose rhs calls calleeSuffix
	found := false
	fd := fc.funcDecl(cond.At)
	if fd == nil {
		return false
	}
	var last *ast.AssignStmt
	astx.Writes(fd.Body, func(l ast.Expr, at ast.Node) {
		if astx.IdentObj(info, l) != o || at.Pos() > cond.E.Pos() {
			return
		}
		if as, ok := at.(*ast.AssignStmt); ok && (last == nil || as.Pos() > last.Pos()) {
			last = as
		}
	})
	if last != nil && len(last.Rhs) == 1 {
		if call, ok := last.Rhs[0].(*ast.CallExpr); ok {
			if fn := astx.Callee(info, call); fn != nil && strings.HasSuffix(fn.FullName(), calleeSuffix) {
				found = true
			} else if fn != nil && c.nilImplies(fn, calleeSuffix, 0) {
				// a helper of the generator whose nil result implies that the named call succeeded
				found = true
			}
		}
	}
	return found
}

// nilImplies: fn (declared in stratum B, returning an error last) can return nil only on paths on which a
// call of `calleeSuffix` returned a nil error: every return statement that may yield nil is dominated by the
// `== nil` edge of that call's error, or returns that call's error directly.
func (c *ctx) nilImplies(fn *types.Func, calleeSuffix string, depth int) bool {
	if depth > 3 {
		return false
	}
	var fc *fileCtx
	var fd *ast.FuncDecl
	for _, f := range c.files {
		if d := astx.DeclOfFunc(f.pkg.TypesInfo, []*ast.File{f.file}, fn); d != nil && d.Body != nil {
			fc, fd = f, d
		}
	}
	if fd == nil {
		return false
	}
	info := fc.pkg.TypesInfo
	n, good := 0, true
	ast.Inspect(fd.Body, func(nn ast.Node) bool {
		if _, isLit := nn.(*ast.FuncLit); isLit {
			return false
		}
		ret, ok := nn.(*ast.ReturnStmt)
		if !ok || len(ret.Results) == 0 {
			return true
		}
		n++
		e := astx.Unparen(ret.Results[len(ret.Results)-1])
		conds := fc.par.Known(ret, fd)
		// returns an error known to be non-nil on this path
		if o := astx.IdentObj(info, e); o != nil {
			for _, cd := range conds {
				if x, ok := astx.EqNil(info, cd.E); ok && !cd.Pos && astx.IdentObj(info, x) == o {
					return true
				}
			}
		}
		if call, ok := e.(*ast.CallExpr); ok {
			if f2 := astx.Callee(info, call); f2 != nil {
				if strings.HasSuffix(f2.FullName(), calleeSuffix) || f2.FullName() == "fmt.Errorf" || f2.FullName() == "errors.New" || c.nilImplies(f2, calleeSuffix, depth+1) {
					return true
				}
			}
		}
		for _, cd := range conds {
			if cd.Pos && c.errFrom(fc, cd, calleeSuffix) {
				return true
			}
		}
		good = false
		return true
	})
	return good && n > 0
}

// G4 who may write files; G6 write after validate.
func (c *ctx) fileWrites() {
	type wsite struct {
		fc   *fileCtx
		call *ast.CallExpr
		fn   string
	}
	var writes []wsite
	c.eachCall(func(fc *fileCtx, call *ast.CallExpr, fn *types.Func) {
		if fn == nil {
			return
		}
		full := fn.FullName()
		isFileMethod := strings.HasPrefix(full, "(*os.File).Write") || full == "(*os.File).Truncate" || full == "(*os.File).ReadFrom"
		writesToFile := false
		if full == "(*bytes.Buffer).WriteTo" || full == "io.Copy" || full == "io.WriteString" || strings.HasPrefix(full, "fmt.Fprint") {
			// destination typed *os.File?
			if len(call.Args) > 0 {
				if t := fc.pkg.TypesInfo.TypeOf(call.Args[0]); t != nil && t.String() == "*os.File" {
					writesToFile = true
				}
			}
		}
		if !fsMutators[full] && !isFileMethod && !writesToFile {
			return
		}
		writes = append(writes, wsite{fc, call, full})
	})
	c.s.SetFact("genlint.fs_mutation_sites", len(writes))
	for _, w := range writes {
		fc, call, info := w.fc, w.call, w.fc.pkg.TypesInfo
		name := fc.funcName(call)
		key := fmt.Sprintf("%s|%s", name, w.fn)
		fd := fc.funcDecl(call)
		conds := fc.par.Known(call, fd)
		switch w.fn {
		case "os.WriteFile":
			pathOK := false
			if se, ok := astx.Unparen(call.Args[0]).(*ast.SelectorExpr); ok && se.Sel.Name == "outputPath" {
				if sel := info.Selections[se]; sel != nil && sel.Kind() == types.FieldVal {
					pathOK = true
				}
			}
			c.s.Check(pathOK, "G4", key+"#path", c.pos(call), "writes the generator's outputPath only", "a file is written at a path other than the generator's outputPath (e.g. the source file or a derived name)")
			// G6
			c.checkValidated(fc, fd, call, conds, key)
		case "os.CreateTemp":
			// a file in the system temp dir is not one of the user's files: allowed wherever it is created
			okArg := len(call.Args) == 2
			if okArg {
				s, isC := constStr(fc, call.Args[0])
				okArg = isC && s == ""
			}
			c.s.Check(okArg, "G4", key+"#debug dump", c.pos(call), "listed exception: dump into the system temp dir", "temp file created outside the system temp dir")
		case "(*bytes.Buffer).WriteTo":
			// the destination handle must be the one os.CreateTemp returned in this function
			isTemp := false
			if dst := astx.IdentObj(info, call.Args[0]); dst != nil && fd != nil {
				ast.Inspect(fd.Body, func(n ast.Node) bool {
					as, ok := n.(*ast.AssignStmt)
					if !ok || len(as.Rhs) != 1 || len(as.Lhs) == 0 {
						return true
					}
					if c2, ok := astx.Unparen(as.Rhs[0]).(*ast.CallExpr); ok {
						if f2 := astx.Callee(info, c2); f2 != nil && f2.FullName() == "os.CreateTemp" && astx.IdentObj(info, as.Lhs[0]) == dst {
							isTemp = true
						}
					}
					return true
				})
			}
			c.s.Check(isTemp, "G4", key+"#debug dump", c.pos(call), "writes the debug temp file", "a file handle other than the debug temp file is written")
		default:
			c.s.Bad("G4", key, c.pos(call), "file-system mutation outside the closed list (os.WriteFile(outputPath), debug temp file): cff could modify files other than its documented outputs")
		}
	}
	// outputPath provenance
	nSet := 0
	for _, fc := range c.files {
		info := fc.pkg.TypesInfo
		fc := fc
		ast.Inspect(fc.file, func(n ast.Node) bool {
			switch v := n.(type) {
			case *ast.KeyValueExpr:
				id, ok := v.Key.(*ast.Ident)
				if !ok {
					return true
				}
				switch id.Name {
				case "outputPath":
					nSet++
					se, ok := v.Value.(*ast.SelectorExpr)
					c.s.Check(ok && se.Sel.Name == "OutputPath", "G4", fc.funcName(v)+"|outputPath <- opts.OutputPath", c.pos(v), "", "generator.outputPath is not taken from generatorOpts.OutputPath")
				case "OutputPath":
					nSet++
					good := c.isProcessOutputPath(fc, v.Value)
					c.s.Check(good, "G4", fc.funcName(v)+"|OutputPath <- Process's outputPath parameter", c.pos(v), "", "generatorOpts.OutputPath is not Process's outputPath parameter")
				}
			}
			return true
		})
		astx.Writes(fc.file, func(l ast.Expr, at ast.Node) {
			if se, ok := astx.Unparen(l).(*ast.SelectorExpr); ok && (se.Sel.Name == "outputPath" || se.Sel.Name == "OutputPath") {
				if sel := info.Selections[se]; sel != nil && sel.Kind() == types.FieldVal {
					c.s.Bad("G4", fc.funcName(at)+"|output path reassigned", c.pos(at), "the output path is modified after construction")
				}
			}
		})
	}
	if nSet < 3 {
		c.s.Unk("G4", "output path plumbing", "", "outputPath/OutputPath initialisers not found")
	}
	// main.run: the third argument of Process is outputs[name] or genFilename(path)
	// (the per-file loop may live in run() or in a function run() delegates to)
	var fc *fileCtx
	var fd *ast.FuncDecl
	var proc *ast.CallExpr
	for _, f2 := range c.files {
		if f2.pkg.PkgPath != "go.uber.org/cff/cmd/cff" {
			continue
		}
		f2 := f2
		ast.Inspect(f2.file, func(n ast.Node) bool {
			if call, ok := n.(*ast.CallExpr); ok {
				if fn := astx.Callee(f2.pkg.TypesInfo, call); fn != nil && fn.Name() == "Process" && len(call.Args) == 3 && fn.Pkg() != nil && fn.Pkg().Path() == c.inter.PkgPath {
					proc, fc, fd = call, f2, f2.funcDecl(call)
				}
			}
			return true
		})
	}
	if fd != nil {
		info := fc.pkg.TypesInfo
		good := false
		why := "the output path handed to Process is not the -file IN=OUT value or genFilename(input path)"
		tables := map[types.Object]bool{} // the -file tables the output path is looked up in
		if proc != nil {
			fl := &mainFlow{c: c, fc: fc, info: info, proc: proc, procFd: fd, tables: tables, seen: map[ast.Expr]bool{}}
			good = fl.pathOrigin(proc.Args[2], nil, 0)
			if fl.why != "" {
				why = fl.why
			}
			// the tables reached, and every variable / parameter / helper result they travel through
			fl.closeTables()
		}
		// the table holds nothing but what the user wrote after `=`: every value stored in it is the Output field of a -file pair
		for _, f2 := range c.files {
			if f2.pkg != fc.pkg {
				continue
			}
			astx.Writes(f2.file, func(l ast.Expr, at ast.Node) {
				ix, ok := astx.Unparen(l).(*ast.IndexExpr)
				if !ok || !tables[astx.IdentObj(f2.pkg.TypesInfo, ix.X)] {
					return
				}
				as, ok := at.(*ast.AssignStmt)
				if !ok || len(as.Rhs) != len(as.Lhs) {
					good = false
					return
				}
				for i := range as.Lhs {
					if as.Lhs[i] != l {
						continue
					}
					isOut := func(e ast.Expr) bool {
						_, f, ok := astx.FieldSel(f2.pkg.TypesInfo, e)
						return ok && f.Name() == "Output"
					}
					okVal := isOut(as.Rhs[i])
					if vo := astx.IdentObj(f2.pkg.TypesInfo, as.Rhs[i]); vo != nil && !okVal {
						// a local that only ever holds the pair's Output
						okVal = true
						nw := 0
						if efd := f2.funcDecl(at); efd != nil {
							astx.Writes(efd.Body, func(l2 ast.Expr, at2 ast.Node) {
								if astx.IdentObj(f2.pkg.TypesInfo, l2) != vo {
									return
								}
								nw++
								as2, ok := at2.(*ast.AssignStmt)
								if !ok || len(as2.Lhs) != len(as2.Rhs) {
									okVal = false
									return
								}
								for k := range as2.Lhs {
									if as2.Lhs[k] == l2 && !isOut(as2.Rhs[k]) {
										okVal = false
									}
								}
							})
						}
						okVal = okVal && nw > 0
					}
					if !okVal {
						good = false
						why = "the -file table is filled with something other than the OUT the user gave (`" + astx.Short(as.Rhs[i]) + "`): a default computed from the bare IN name is relative to the working directory, not to the source file"
					}
				}
			})
		}
		c.s.Check(good, "G4", "main.run|Process gets -file's OUT or genFilename(path)", c.pos(fd), "", why)
		// the -file table is read-only while packages are processed
		if proc != nil {
			var pkgLoop ast.Stmt
			for x := ast.Node(proc); x != nil && x != ast.Node(fd); x = fc.par[x] {
				if rs, ok := x.(*ast.RangeStmt); ok {
					pkgLoop = rs
				}
			}
			bad := false
			if pkgLoop != nil {
				astx.Writes(pkgLoop, func(l ast.Expr, at ast.Node) {
					if ix, ok := astx.Unparen(l).(*ast.IndexExpr); ok && isMapType(info.TypeOf(ix.X)) {
						bad = true
					}
				})
			}
			c.s.Check(pkgLoop != nil && !bad, "G4", "main.run|no table is written while files are processed", c.pos(fd), "the -file IN=OUT table is filled before the loop and only read in it", "a map is written inside the per-file loop of run(): the output path of one file can depend on files (of other packages) processed before it")
		}
	} else {
		c.s.Unk("G4", "main.run", "", "function not found")
	}
}

// checkValidated (G6): the write is dominated by the == nil edges of parser.ParseFile and format.Node, here or at every call site of the enclosing helper.
func (c *ctx) checkValidated(fc *fileCtx, fd *ast.FuncDecl, call *ast.CallExpr, conds []astx.Cond, key string) {
	has := func(fc *fileCtx, conds []astx.Cond) (bool, bool) {
		p, f := false, false
		for _, cd := range conds {
			if cd.Pos && c.errFrom(fc, cd, "go/parser.ParseFile") {
				p = true
			}
			if cd.Pos && c.errFrom(fc, cd, "go/format.Node") {
				f = true
			}
		}
		return p, f
	}
	p, f := has(fc, conds)
	if p && f {
		c.s.OK("G6", key+"#validated", c.pos(call), "dominated by parser.ParseFile == nil and format.Node == nil")
		return
	}
	// helper (of a helper ...): every chain of call sites leading here passes both tests
	var validated func(fd *ast.FuncDecl, fcx *fileCtx, needP, needF bool, depth int) (bool, int)
	validated = func(fd *ast.FuncDecl, fcx *fileCtx, needP, needF bool, depth int) (bool, int) {
		if depth > 4 || fd == nil {
			return false, 0
		}
		fnObj := fcx.pkg.TypesInfo.Defs[fd.Name]
		sites, good := 0, true
		c.eachCall(func(fc2 *fileCtx, call2 *ast.CallExpr, fn *types.Func) {
			if fn == nil || types.Object(fn) != fnObj {
				return
			}
			sites++
			fd2 := fc2.funcDecl(call2)
			p2, f2 := has(fc2, fc2.par.Known(call2, fd2))
			np, nf := needP && !p2, needF && !f2
			if np || nf {
				if ok, _ := validated(fd2, fc2, np, nf, depth+1); !ok {
					good = false
				}
			}
		})
		return sites > 0 && good, sites
	}
	if ok, sites := validated(fd, fc, !p, !f, 0); ok {
		c.s.OK("G6", key+"#validated", c.pos(call), fmt.Sprintf("helper: every chain of call sites (%d direct) is dominated by parser.ParseFile == nil and format.Node == nil", sites))
		return
	}
	c.s.Bad("G6", key+"#validated", c.pos(call), "an output file is written before the generated text was re-parsed and formatted successfully: a template bug would leave a broken file on disk while cff may report success")
}

// G5 compile gate; G9 validators on every path.
func (c *ctx) compileGate() {
	fc, fd := c.findFunc(c.inter.PkgPath, "Processor", "Process")
	if fd == nil {
		c.s.Unk("G5", "Processor.Process", "", "not found")
		return
	}
	info := fc.pkg.TypesInfo
	n := 0
	for _, ic := range astx.CallsInlined(info, fc.pkg.Syntax, fd, 2) {
		call := ic.Call
		fn := astx.Callee(info, call)
		if fn == nil || fn.Name() != "GenerateFile" {
			continue
		}
		n++
		// the call itself, or one of the calls entered to reach it, is dominated by CompileFile() == nil
		gated := false
		for _, site := range append(append([]*ast.CallExpr(nil), ic.Chain...), call) {
			sfc := c.fileOf(site)
			if sfc == nil {
				continue
			}
			for _, cd := range sfc.par.Known(site, sfc.funcDecl(site)) {
				if cd.Pos && c.errFrom(sfc, cd, ".CompileFile") {
					gated = true
				}
			}
		}
		c.s.Check(gated, "G5", fmt.Sprintf("Processor.Process|%s after CompileFile() == nil", fn.FullName()), c.pos(call), "", "code is generated although compilation reported errors")
	}
	if n == 0 {
		c.s.Unk("G5", "Processor.Process|GenerateFile", c.pos(fd), "no GenerateFile call")
	}
	// CompileFile returns the combination of all recorded errors
	if fc2, cf := c.findFunc(c.inter.PkgPath, "compiler", "CompileFile"); cf != nil {
		good := false
		ast.Inspect(cf.Body, func(nn ast.Node) bool {
			if ret, ok := nn.(*ast.ReturnStmt); ok && len(ret.Results) == 2 {
				if call, ok := ret.Results[1].(*ast.CallExpr); ok && fullName(astx.Callee(fc2.pkg.TypesInfo, call)) == "go.uber.org/multierr.Combine" && call.Ellipsis.IsValid() {
					if se, ok := call.Args[0].(*ast.SelectorExpr); ok && se.Sel.Name == "errors" {
						good = true
					}
				}
			}
			return true
		})
		c.s.Check(good, "G5", "compiler.CompileFile|returns multierr.Combine(c.errors...)", c.pos(cf), "", "CompileFile does not return all recorded diagnostics")
	}
	// compileFlow (G9)
	fc3, cfl := c.findFunc(c.inter.PkgPath, "compiler", "compileFlow")
	if cfl == nil {
		c.s.Unk("G9", "compiler.compileFlow", "", "not found")
		return
	}
	info3 := fc3.pkg.TypesInfo
	var sched *ast.CallExpr
	pos := map[string]*ast.CallExpr{}
	ast.Inspect(cfl.Body, func(nn ast.Node) bool {
		if call, ok := nn.(*ast.CallExpr); ok {
			if fn := astx.Callee(info3, call); fn != nil {
				switch fn.Name() {
				case "scheduleFlowAndToposort":
					sched = call
				case "validateNoUnusedOutputTypes", "validateFuncs", "validateFlowCycles", "validateInstrument":
					pos[fn.Name()] = call
				}
			}
		}
		return true
	})
	if sched == nil {
		c.s.Unk("G9", "compileFlow|scheduling call", c.pos(cfl), "scheduleFlowAndToposort call not found")
		return
	}
	for _, v := range []string{"validateNoUnusedOutputTypes", "validateFuncs", "validateFlowCycles"} {
		call := pos[v]
		// unconditional at the top level of the function body and before scheduling
		good := call != nil && call.Pos() < sched.Pos() && fc3.par.InLoop(call) == nil
		if good {
			st := fc3.par.StmtOf(call)
			good = fc3.par[st] == ast.Node(cfl.Body)
		}
		c.s.Check(good, "G9", "compileFlow|"+v+" runs unconditionally before scheduling", c.pos(cfl), "", v+" is skipped on some path before the flow is scheduled/generated: an ill-formed flow would be accepted")
	}
	// scheduling is dominated by len(c.errors) == 0 and by validateFlowCycles == nil
	conds := fc3.par.Known(sched, cfl)
	noErrs, noCycle := false, false
	for _, cd := range conds {
		if b, ok := astx.Unparen(cd.E).(*ast.BinaryExpr); ok && !cd.Pos && b.Op == token.GTR && astx.IsIntConst(info3, b.Y, 0) {
			if call, ok := b.X.(*ast.CallExpr); ok && astx.IsBuiltin(info3, call, "len") {
				if se, ok := call.Args[0].(*ast.SelectorExpr); ok && se.Sel.Name == "errors" {
					noErrs = true
					// the cycle error is recorded among the diagnostics and this guard, which comes after the cycle
					// check, returns for any diagnostic: scheduling is behind the cycle check as well
					if cyc := pos["validateFlowCycles"]; cyc != nil && cd.At != nil && cd.At.Pos() > cyc.Pos() {
						if is, ok := fc3.par.Enclosing(cyc, func(n ast.Node) bool { _, ok := n.(*ast.IfStmt); return ok }).(*ast.IfStmt); ok && is.Init != nil && fc3.par.Within(cyc, is.Init) {
							astx.Writes(is.Body, func(l ast.Expr, at ast.Node) {
								if _, f, ok := astx.FieldSel(info3, l); ok && f.Name() == "errors" {
									noCycle = true
								}
							})
						}
					}
				}
			}
		}
		if cd.Pos && c.errFrom(fc3, cd, "validateFlowCycles") {
			noCycle = true
		}
	}
	c.s.Check(noErrs, "G9", "compileFlow|scheduling only with zero diagnostics", c.pos(sched), "", "the flow is scheduled although diagnostics were recorded")
	c.s.Check(noCycle, "G9", "compileFlow|toposort only after the cycle check passed", c.pos(sched), "", "toposort (unguarded recursion) can run on a cyclic graph: cff would crash with a stack overflow")
	// the provider/receiver tables are filled, unconditionally and at the top level of compileFlow, before the
	// validators run: a top-level statement (the loop over flow.Funcs, or a call of a helper holding it) that
	// reaches `<flow>.providers.Set(...)`
	isProvSet := func(f2 *fileCtx, call *ast.CallExpr) bool {
		se, ok := call.Fun.(*ast.SelectorExpr)
		if !ok || se.Sel.Name != "Set" {
			return false
		}
		inner, ok := astx.Unparen(se.X).(*ast.SelectorExpr)
		return ok && inner.Sel.Name == "providers"
	}
	var reg ast.Stmt
	for _, st := range cfl.Body.List {
		if pos["validateFuncs"] != nil && st.Pos() > pos["validateFuncs"].Pos() {
			break
		}
		switch st.(type) {
		case *ast.RangeStmt, *ast.ForStmt, *ast.ExprStmt, *ast.AssignStmt:
			if c.reachesCall(fc3, st, isProvSet, map[*ast.FuncDecl]bool{}) {
				reg = st
			}
		}
	}
	c.s.Check(reg != nil && pos["validateFuncs"] != nil && reg.End() < pos["validateFuncs"].Pos(), "G9", "compileFlow|providers/receivers registered before validation", c.pos(cfl), "", "provider/receiver tables are not (fully) built before the validators run")
}

// G7 guarded preconditions (constant accessors).
func (c *ctx) guardedPreconditions() {
	n := 0
	c.eachCall(func(fc *fileCtx, call *ast.CallExpr, fn *types.Func) {
		if fn == nil || fn.Pkg() == nil || fn.Pkg().Path() != "go/constant" {
			return
		}
		switch fn.Name() {
		case "BoolVal", "StringVal", "Int64Val", "Uint64Val", "Float32Val", "Float64Val", "Val", "BitLen", "Sign", "Bytes":
		default:
			return
		}
		n++
		info := fc.pkg.TypesInfo
		arg := call.Args[0]
		fd := fc.funcDecl(call)
		conds := fc.par.Known(call, fd)
		guarded := false
		for _, cd := range conds {
			// arg != nil   or   arg.Kind() == constant.X
			if e, ok := astx.EqNil(info, cd.E); ok && !cd.Pos && astx.Same(info, e, arg) {
				guarded = true
			}
			if b, ok := astx.Unparen(cd.E).(*ast.BinaryExpr); ok && b.Op == token.EQL && cd.Pos {
				if kc, ok := b.X.(*ast.CallExpr); ok {
					if se, ok := kc.Fun.(*ast.SelectorExpr); ok && se.Sel.Name == "Kind" && astx.Same(info, se.X, arg) {
						guarded = true
					}
				}
			}
		}
		c.s.Check(guarded, "G7", fmt.Sprintf("%s|constant.%s(%s)", fc.funcName(call), fn.Name(), astx.Short(arg)), c.pos(call), "guarded by a nil/kind test of the same value",
			"constant."+fn.Name()+" panics when the value is nil (non-constant expression) or of another kind, and no dominating test establishes the precondition: cff dies with a Go panic on a type-correct input")
	})
	if n == 0 {
		c.s.OK("G7", "stratum B|no constant accessor", "", "no go/constant accessor with a panicking precondition is used")
	}
}

// G8 assignability direction.
func (c *ctx) assignability() {
	c.eachCall(func(fc *fileCtx, call *ast.CallExpr, fn *types.Func) {
		if fullName(fn) != "go/types.AssignableTo" || len(call.Args) != 2 {
			return
		}
		info := fc.pkg.TypesInfo
		classify := func(e ast.Expr) string {
			kind := ""
			var visit func(e ast.Expr, depth int)
			visit = func(e ast.Expr, depth int) {
				if depth > 4 {
					return
				}
				ast.Inspect(e, func(n ast.Node) bool {
					switch v := n.(type) {
					case *ast.CallExpr:
						if f := astx.Callee(info, v); f != nil {
							switch f.FullName() {
							case "(*go/types.Slice).Elem", "(*go/types.Map).Key", "(*go/types.Map).Elem", "(*go/types.Array).Elem", "(*go/types.Info).TypeOf":
								kind += "V"
							case "(*go/types.Tuple).At", "(*go/types.Signature).Params", "(*go/types.Signature).Results":
								kind += "S"
							}
						}
					case *ast.SelectorExpr:
						switch v.Sel.Name {
						case "Inputs", "Outputs":
							if sel := info.Selections[v]; sel != nil && sel.Kind() == types.FieldVal {
								kind += "S"
							}
						}
					case *ast.Ident:
						if o, ok := info.Uses[v].(*types.Var); ok && !o.IsField() {
							if d := declOf(fc, o); d != nil {
								if as, ok := fc.par[d].(*ast.AssignStmt); ok && len(as.Lhs) == len(as.Rhs) {
									for i, l := range as.Lhs {
										if l == ast.Expr(d) {
											visit(as.Rhs[i], depth+1)
										}
									}
								}
							}
						}
					}
					return true
				})
			}
			visit(e, 0)
			hasV, hasS := strings.Contains(kind, "V"), strings.Contains(kind, "S")
			switch {
			case hasV && !hasS:
				return "value"
			case hasS && !hasV:
				return "slot"
			}
			return "?"
		}
		a, b := classify(call.Args[0]), classify(call.Args[1])
		key := fmt.Sprintf("%s|AssignableTo(%s, %s)", fc.funcName(call), astx.Short(call.Args[0]), astx.Short(call.Args[1]))
		switch {
		case a == "value" && b == "slot":
			c.s.OK("G8", key, c.pos(call), "AssignableTo(type of the value passed, type of the slot receiving it)")
		case a == "slot" && b == "value":
			c.s.Bad("G8", key, c.pos(call), "operands reversed: the generated code passes the value (collection element / fallback expression) TO the slot (parameter / task output), so the test must be AssignableTo(value, slot); as written valid programs are refused and invalid ones produce code that does not compile")
		default:
			c.s.Unk("G8", key, c.pos(call), fmt.Sprintf("cannot attribute operands (%s, %s) to value/slot", a, b))
		}
	})
}

// isProcessedPath: e names the path of the file handed to Process: the value variable of the range over
// X.CompiledGoFiles that encloses the Process call, whose index selects the syntax tree passed to it.
func (c *ctx) isProcessedPath(fc *fileCtx, fd *ast.FuncDecl, proc *ast.CallExpr, e ast.Expr) bool {
	info := fc.pkg.TypesInfo
	o := astx.IdentObj(info, e)
	if o == nil {
		return false
	}
	for x := fc.par[proc]; x != nil && x != ast.Node(fd); x = fc.par[x] {
		rs, ok := x.(*ast.RangeStmt)
		if !ok || rs.Value == nil || astx.IdentObj(info, rs.Value) != o {
			continue
		}
		se, ok := astx.Unparen(rs.X).(*ast.SelectorExpr)
		if !ok || se.Sel.Name != "CompiledGoFiles" {
			return false
		}
		// Process(_, X.Syntax[key], _) with the same X and the range key
		ix, ok := astx.Unparen(proc.Args[1]).(*ast.IndexExpr)
		if !ok || rs.Key == nil || astx.IdentObj(info, ix.Index) != astx.IdentObj(info, rs.Key) {
			return false
		}
		s2, ok := astx.Unparen(ix.X).(*ast.SelectorExpr)
		return ok && astx.Same(info, s2.X, se.X)
	}
	return false
}

// mainFlow traces where the output path handed to Process comes from, through locals, helper parameters
// and helper results of package cmd/cff.
type mainFlow struct {
	c      *ctx
	fc     *fileCtx
	info   *types.Info
	proc   *ast.CallExpr
	procFd *ast.FuncDecl
	tables map[types.Object]bool
	seen   map[ast.Expr]bool
	why    string
}

type mainBind struct {
	params map[types.Object]ast.Expr
	outer  *mainBind
}

func (b *mainBind) lookup(o types.Object) (ast.Expr, *mainBind, bool) {
	for x := b; x != nil; x = x.outer {
		if e, ok := x.params[o]; ok {
			return e, x.outer, true
		}
	}
	return nil, nil, false
}

func (f *mainFlow) declOf(fn *types.Func) (*fileCtx, *ast.FuncDecl) {
	for _, f2 := range f.c.files {
		if f2.pkg != f.fc.pkg {
			continue
		}
		if d := astx.DeclOfFunc(f.info, []*ast.File{f2.file}, fn); d != nil && d.Body != nil {
			return f2, d
		}
	}
	return nil, nil
}

// pathOrigin: every value e can take is a lookup in a -file table, genFilename(path of the processed file),
// or the empty string (the "not selected" result of a helper, never used).
func (f *mainFlow) pathOrigin(e ast.Expr, b *mainBind, depth int) bool {
	e = astx.Unparen(e)
	if depth > 12 {
		return false
	}
	if tv, ok := f.info.Types[e]; ok && tv.Value != nil && tv.Value.ExactString() == `""` {
		return true
	}
	switch x := e.(type) {
	case *ast.IndexExpr:
		if !isMapType(f.info.TypeOf(x.X)) {
			return false
		}
		f.noteTable(x.X, b)
		return true
	case *ast.CallExpr:
		fn := astx.Callee(f.info, x)
		if fn != nil && fn.Name() == "genFilename" {
			if len(x.Args) == 1 && f.isProcessed(x.Args[0], b, 0) {
				return true
			}
			f.why = "the default output name is not computed from the path of the file being processed"
			return false
		}
		return f.resultOrigin(x, 0, b, depth)
	case *ast.Ident:
		o := astx.ObjOf(f.info, x)
		if o == nil {
			return false
		}
		if arg, outer, ok := b.lookup(o); ok {
			return f.pathOrigin(arg, outer, depth+1)
		}
		fc2 := f.c.fileOf(x)
		if fc2 == nil {
			return false
		}
		efd := fc2.funcDecl(x)
		if efd == nil {
			return false
		}
		n, all := 0, true
		// named results start as the zero value (empty string): fine
		astx.Writes(efd.Body, func(l ast.Expr, at ast.Node) {
			if astx.IdentObj(f.info, l) != o {
				return
			}
			n++
			as, ok := at.(*ast.AssignStmt)
			if !ok {
				all = false
				return
			}
			if len(as.Rhs) == len(as.Lhs) {
				for i := range as.Lhs {
					if as.Lhs[i] == l && !f.pathOrigin(as.Rhs[i], b, depth+1) {
						all = false
					}
				}
				return
			}
			// v, ok := m[k]   /   v, ok := helper(...)
			if len(as.Rhs) == 1 {
				for i := range as.Lhs {
					if as.Lhs[i] != l {
						continue
					}
					switch r := astx.Unparen(as.Rhs[0]).(type) {
					case *ast.IndexExpr:
						if i != 0 || !f.pathOrigin(r, b, depth+1) {
							all = false
						}
					case *ast.CallExpr:
						if !f.resultOrigin(r, i, b, depth+1) {
							all = false
						}
					default:
						all = false
					}
				}
				return
			}
			all = false
		})
		return n > 0 && all
	}
	return false
}

// resultOrigin: result k of a call of a package-local helper.
func (f *mainFlow) resultOrigin(call *ast.CallExpr, k int, b *mainBind, depth int) bool {
	fn := astx.Callee(f.info, call)
	if fn == nil {
		return false
	}
	_, d := f.declOf(fn)
	if d == nil {
		return false
	}
	nb := &mainBind{params: map[types.Object]ast.Expr{}, outer: b}
	i := 0
	for _, fl := range d.Type.Params.List {
		for _, nm := range fl.Names {
			if i < len(call.Args) {
				nb.params[f.info.Defs[nm]] = call.Args[i]
			}
			i++
		}
	}
	// named results
	var named []*ast.Ident
	if d.Type.Results != nil {
		for _, fl := range d.Type.Results.List {
			named = append(named, fl.Names...)
		}
	}
	ok, nret := true, 0
	ast.Inspect(d.Body, func(n ast.Node) bool {
		if _, isLit := n.(*ast.FuncLit); isLit {
			return false
		}
		ret, isRet := n.(*ast.ReturnStmt)
		if !isRet {
			return true
		}
		nret++
		switch {
		case len(ret.Results) > k:
			if !f.pathOrigin(ret.Results[k], nb, depth+1) {
				ok = false
			}
		case len(ret.Results) == 0 && k < len(named):
			if !f.pathOrigin(named[k], nb, depth+1) {
				ok = false
			}
		default:
			ok = false
		}
		return true
	})
	return ok && nret > 0
}

// isProcessed: e is the path of the file handed to Process (the range value over X.CompiledGoFiles whose key
// selects the syntax tree), possibly through helper parameters.
func (f *mainFlow) isProcessed(e ast.Expr, b *mainBind, depth int) bool {
	if depth > 6 {
		return false
	}
	if id, ok := astx.Unparen(e).(*ast.Ident); ok {
		if arg, outer, ok := b.lookup(astx.ObjOf(f.info, id)); ok {
			return f.isProcessed(arg, outer, depth+1)
		}
	}
	return f.c.isProcessedPath(f.fc, f.procFd, f.proc, e)
}

func (f *mainFlow) noteTable(m ast.Expr, b *mainBind) {
	for i := 0; i < 8; i++ {
		id, ok := astx.Unparen(m).(*ast.Ident)
		if !ok {
			return
		}
		o := astx.ObjOf(f.info, id)
		if o == nil {
			return
		}
		f.tables[o] = true
		arg, outer, ok := b.lookup(o)
		if !ok {
			return
		}
		m, b = arg, outer
	}
}

// closeTables adds the variables a table value is copied from: `t := helper()` adds what the helper returns,
// `t := other` adds other.
func (f *mainFlow) closeTables() {
	for changed := true; changed; {
		changed = false
		for _, f2 := range f.c.files {
			if f2.pkg != f.fc.pkg {
				continue
			}
			astx.Writes(f2.file, func(l ast.Expr, at ast.Node) {
				if !f.tables[astx.IdentObj(f.info, l)] {
					return
				}
				as, ok := at.(*ast.AssignStmt)
				if !ok {
					return
				}
				add := func(e ast.Expr) {
					if o := astx.IdentObj(f.info, e); o != nil && !f.tables[o] && isMapType(o.Type()) {
						f.tables[o] = true
						changed = true
					}
				}
				idx := -1
				for i := range as.Lhs {
					if as.Lhs[i] == l {
						idx = i
					}
				}
				var rhs ast.Expr
				if len(as.Rhs) == len(as.Lhs) {
					rhs = as.Rhs[idx]
				} else if len(as.Rhs) == 1 {
					rhs = as.Rhs[0]
				}
				if rhs == nil {
					return
				}
				if call, ok := astx.Unparen(rhs).(*ast.CallExpr); ok {
					if fn := astx.Callee(f.info, call); fn != nil {
						if _, d := f.declOf(fn); d != nil {
							ast.Inspect(d.Body, func(n ast.Node) bool {
								if ret, ok := n.(*ast.ReturnStmt); ok && len(ret.Results) > idx && idx >= 0 {
									add(ret.Results[idx])
								}
								return true
							})
						}
					}
					return
				}
				add(rhs)
			})
		}
	}
}

// isProcessOutputPath: e is Processor.Process's outputPath parameter, possibly handed on through the
// parameters of package-local helpers that Process calls.
func (c *ctx) isProcessOutputPath(fc *fileCtx, e ast.Expr) bool {
	pfc, pfd := c.findFunc(c.inter.PkgPath, "Processor", "Process")
	if pfd == nil {
		return false
	}
	info := pfc.pkg.TypesInfo
	isParam := func(o types.Object) bool {
		if o == nil {
			return false
		}
		for _, f := range pfd.Type.Params.List {
			for _, nm := range f.Names {
				if info.Defs[nm] == o && nm.Name == "outputPath" {
					return true
				}
			}
		}
		return false
	}
	o := astx.IdentObj(info, e)
	if isParam(o) {
		return true
	}
	for _, ic := range astx.CallsInlined(info, pfc.pkg.Syntax, pfd, 3) {
		if arg, ok := ic.Bindings()[o]; ok && isParam(astx.IdentObj(info, arg)) {
			return true
		}
	}
	return false
}
