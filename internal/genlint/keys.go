package genlint

import (
	"fmt"
	"go/ast"
	"go/token"
	"go/types"
	"sort"

	"cffverif/internal/astx"
)

// G28: memo / visited-set keys of the validators' graph searches are total over the nodes.
//
// A search that skips a node because "its key is already in the set" is sound only if distinct nodes have
// distinct keys. Keys that are the node itself (a *function, a types.Type looked up in a typeutil.Map) are;
// a key that is a pointer-typed *field* of the node (fn.Task, fn.Predicate, ...) is only if every
// constructor of the node type sets that field - otherwise all nodes that leave it nil share one key and all
// but the first are skipped (seed C14_g: predicates have no Task, so the inputs of every predicate but the
// first were never checked: a missing provider went unreported and a used Params value was called unused).
func (c *ctx) memoKeys() {
	info := c.inter.TypesInfo
	// functions reachable from compileFlow whose name marks them as validators, plus everything they call in the package
	_, root := c.findFunc(c.inter.PkgPath, "compiler", "compileFlow")
	if root == nil {
		c.s.Unk("G28", "compileFlow", "", "function not found")
		return
	}
	reach := map[*ast.FuncDecl]*fileCtx{}
	var visit func(fc *fileCtx, fd *ast.FuncDecl, in bool)
	visit = func(fc *fileCtx, fd *ast.FuncDecl, in bool) {
		if fd == nil || fd.Body == nil {
			return
		}
		if in {
			if _, ok := reach[fd]; ok {
				return
			}
			reach[fd] = fc
		}
		ast.Inspect(fd.Body, func(n ast.Node) bool {
			call, ok := n.(*ast.CallExpr)
			if !ok {
				return true
			}
			fn := astx.Callee(fc.pkg.TypesInfo, call)
			if fn == nil || fn.Pkg() != c.inter.Types {
				return true
			}
			for _, f2 := range c.files {
				if f2.pkg != c.inter {
					continue
				}
				if d := astx.DeclOfFunc(f2.pkg.TypesInfo, []*ast.File{f2.file}, fn); d != nil && d != fd {
					isVal := len(d.Name.Name) >= 8 && d.Name.Name[:8] == "validate"
					if in || isVal {
						visit(f2, d, true)
					}
				}
			}
			return true
		})
	}
	visit(nil2fc(c, root), root, false)
	if len(reach) == 0 {
		c.s.Unk("G28", "validators", c.pos(root), "no validate* function is called from compileFlow")
		return
	}
	var fds []*ast.FuncDecl
	for fd := range reach {
		fds = append(fds, fd)
	}
	sort.Slice(fds, func(i, j int) bool { return fds[i].Pos() < fds[j].Pos() })
	n := 0
	for _, fd := range fds {
		fc := reach[fd]
		for _, k := range skipKeys(fc, fd) {
			n++
			key := fmt.Sprintf("%s|memo key %s", fc.funcName(fd.Body), astx.Short(k.key))
			sel, isSel := astx.Unparen(k.key).(*ast.SelectorExpr)
			if !isSel {
				c.s.OK("G28", key, c.pos(k.key), "the key is the node (or a value) itself")
				continue
			}
			base, f, ok := astx.FieldSel(info, sel)
			if !ok {
				c.s.OK("G28", key, c.pos(k.key), "not a field projection")
				continue
			}
			if _, isPtr := f.Type().Underlying().(*types.Pointer); !isPtr {
				if _, isIface := f.Type().Underlying().(*types.Interface); !isIface {
					c.s.OK("G28", key, c.pos(k.key), "field of a non-nilable type")
					continue
				}
			}
			if types.Identical(f.Type(), types.Universe.Lookup("error").Type()) {
				c.s.OK("G28", key, c.pos(k.key), "not a node key")
				continue
			}
			// a types.Type-typed field used with a typeutil.Map is a structural key (the node of a type graph)
			if k.structural {
				c.s.OK("G28", key, c.pos(k.key), "structural type key")
				continue
			}
			// totality: every composite literal of the owner type sets the field
			owner := ownerNamed(info.TypeOf(base))
			if owner == nil {
				c.s.Unk("G28", key, c.pos(k.key), "cannot determine the struct the key field belongs to")
				continue
			}
			var missing []string
			lits := 0
			for _, f2 := range c.files {
				if f2.pkg != c.inter {
					continue
				}
				ast.Inspect(f2.file, func(n ast.Node) bool {
					cl, ok := n.(*ast.CompositeLit)
					if !ok {
						return true
					}
					if ownerNamed(f2.pkg.TypesInfo.TypeOf(cl)) != owner {
						return true
					}
					lits++
					set := false
					for _, e := range cl.Elts {
						if kv, ok := e.(*ast.KeyValueExpr); ok {
							if id, ok := kv.Key.(*ast.Ident); ok && id.Name == f.Name() && !astx.IsNil(f2.pkg.TypesInfo, kv.Value) {
								set = true
							}
						}
					}
					if !set {
						// assigned after construction in the same function (x := &T{...}; ...; x.F = v)?
						if efd := f2.funcDecl(cl); efd != nil {
							ast.Inspect(efd.Body, func(m ast.Node) bool {
								as, ok := m.(*ast.AssignStmt)
								if !ok || as.Pos() < cl.End() {
									return true
								}
								for i, l := range as.Lhs {
									if _, lf, ok := astx.FieldSel(f2.pkg.TypesInfo, l); ok && lf == f && i < len(as.Rhs) && !astx.IsNil(f2.pkg.TypesInfo, as.Rhs[i]) {
										if ownerNamed(f2.pkg.TypesInfo.TypeOf(l.(*ast.SelectorExpr).X)) == owner {
											set = true
										}
									}
								}
								return true
							})
						}
					}
					if !set {
						missing = append(missing, c.pos(cl))
					}
					return true
				})
			}
			if len(missing) > 0 {
				c.s.Bad("G28", key, c.pos(k.key), fmt.Sprintf("the search skips a node when its %s is already recorded, but %s.%s is left nil by the constructor(s) at %v: all such nodes share one key and only the first is examined (missing providers behind the others are not reported, their inputs are called unused)", f.Name(), owner.Obj().Name(), f.Name(), missing))
			} else {
				c.s.OK("G28", key, c.pos(k.key), fmt.Sprintf("field set by all %d constructors", lits))
			}
		}
	}
	if n == 0 {
		c.s.Unk("G28", "validators|memo keys", c.pos(root), "no memo/visited-set test found in the validators: the rule has nothing to check")
	}
}

func nil2fc(c *ctx, fd *ast.FuncDecl) *fileCtx {
	for _, fc := range c.files {
		if fc.file.Pos() <= fd.Pos() && fd.End() <= fc.file.End() {
			return fc
		}
	}
	return nil
}

func ownerNamed(t types.Type) *types.Named {
	if t == nil {
		return nil
	}
	if p, ok := t.Underlying().(*types.Pointer); ok {
		t = p.Elem()
	}
	if p, ok := t.(*types.Pointer); ok {
		t = p.Elem()
	}
	n, _ := t.(*types.Named)
	return n
}

type skipKey struct {
	key        ast.Expr
	structural bool // looked up in a typeutil.Map (structural identity of types)
}

// skipKeys: the keys of membership tests that guard a skip (continue / return / break, or the else of the
// processing) in fd: `if _, ok := m[k]; ok { continue }`, `if m[k] { return }`, `if tm.At(k) != nil { continue }`.
func skipKeys(fc *fileCtx, fd *ast.FuncDecl) []skipKey {
	info := fc.pkg.TypesInfo
	var out []skipKey
	seen := map[ast.Expr]bool{}
	add := func(k ast.Expr, structural bool) {
		if !seen[k] {
			seen[k] = true
			out = append(out, skipKey{k, structural})
		}
	}
	skips := func(body *ast.BlockStmt) bool {
		if body == nil || len(body.List) == 0 {
			return false
		}
		switch x := body.List[len(body.List)-1].(type) {
		case *ast.BranchStmt:
			return x.Tok == token.CONTINUE || x.Tok == token.BREAK
		case *ast.ReturnStmt:
			return true
		}
		return false
	}
	// lookups inside an expression
	lookups := func(e ast.Node) {
		if e == nil {
			return
		}
		ast.Inspect(e, func(n ast.Node) bool {
			switch x := n.(type) {
			case *ast.IndexExpr:
				if t := info.TypeOf(x.X); t != nil {
					if _, ok := t.Underlying().(*types.Map); ok {
						add(x.Index, false)
					}
				}
			case *ast.CallExpr:
				if fn := astx.Callee(info, x); fn != nil && fn.Name() == "At" && len(x.Args) == 1 {
					if sig, ok := fn.Type().(*types.Signature); ok && sig.Recv() != nil {
						if on := ownerNamed(sig.Recv().Type()); on != nil && on.Obj().Pkg() != nil && on.Obj().Pkg().Path() == "golang.org/x/tools/go/types/typeutil" {
							add(x.Args[0], true)
						}
					}
				}
			}
			return true
		})
	}
	ast.Inspect(fd.Body, func(n ast.Node) bool {
		is, ok := n.(*ast.IfStmt)
		if !ok {
			return true
		}
		if !skips(is.Body) {
			return true
		}
		lookups(is.Init)
		lookups(is.Cond)
		return true
	})
	return out
}

// G29: structural classification of user-supplied types looks through named types.
//
// The compiler decides "is this argument a slice / map / function / pointer" by asserting a go/types.Type to
// *types.Slice, *types.Map, *types.Signature, *types.Pointer (...). Applied to the type itself the assertion
// fails for every *named* type of that kind (`type Users map[string]User`), so a well-formed directive is
// rejected with a diagnostic that contradicts the program ("must be a map, got Users"). Sibling sites in the
// same compiler (tasks: Underlying().(*types.Signature); Slice: fallback to Underlying()) show the intended
// treatment. Every such assertion must therefore be applied to X.Underlying(), or have a sibling assertion
// of X.Underlying() to the same type in the same function. *types.Basic is exempt: there the generated code
// declares a variable of the basic type (the predicate's bool, the slice index), so a named type must be
// refused. Finding F9 (three sites), repaired.
func (c *ctx) structuralAssertions() {
	kinds := map[string]bool{"Slice": true, "Map": true, "Signature": true, "Pointer": true, "Chan": true, "Array": true, "Interface": true}
	n := 0
	for _, fc := range c.files {
		if fc.pkg != c.inter {
			continue
		}
		info := fc.pkg.TypesInfo
		for _, d := range fc.file.Decls {
			fd, ok := d.(*ast.FuncDecl)
			if !ok || fd.Body == nil {
				continue
			}
			type site struct {
				ta    *ast.TypeAssertExpr
				kind  string
				under bool
				base  string
			}
			var sites []site
			ast.Inspect(fd.Body, func(nd ast.Node) bool {
				ta, ok := nd.(*ast.TypeAssertExpr)
				if !ok || ta.Type == nil {
					return true
				}
				// operand of static type go/types.Type
				xt := info.TypeOf(ta.X)
				if on, ok := xt.(*types.Named); !ok || on.Obj().Pkg() == nil || on.Obj().Pkg().Path() != "go/types" || on.Obj().Name() != "Type" {
					return true
				}
				// asserted type written as *types.K (not through an alias: the generator's own sentinel aliases are not classifications of user types)
				st, ok := ta.Type.(*ast.StarExpr)
				if !ok {
					return true
				}
				sel, ok := st.X.(*ast.SelectorExpr)
				if !ok {
					return true
				}
				tn, ok := info.Uses[sel.Sel].(*types.TypeName)
				if !ok || tn.Pkg() == nil || tn.Pkg().Path() != "go/types" || !kinds[tn.Name()] {
					return true
				}
				s := site{ta: ta, kind: tn.Name(), base: types.ExprString(ta.X)}
				if call, ok := astx.Unparen(ta.X).(*ast.CallExpr); ok {
					if se, ok := call.Fun.(*ast.SelectorExpr); ok && se.Sel.Name == "Underlying" && len(call.Args) == 0 {
						s.under = true
						s.base = types.ExprString(se.X)
					}
				}
				sites = append(sites, s)
				return true
			})
			for _, s := range sites {
				n++
				key := fmt.Sprintf("%s|%s.(*types.%s)", fc.funcName(fd.Body), s.base, s.kind)
				if s.under {
					c.s.OK("G29", key, c.pos(s.ta), "asserted on the underlying type")
					continue
				}
				fallback := false
				for _, o := range sites {
					if o.under && o.kind == s.kind && o.base == s.base {
						fallback = true
					}
				}
				if fallback {
					c.s.OK("G29", key, c.pos(s.ta), "the same function falls back to the underlying type")
				} else {
					c.s.Bad("G29", key, c.pos(s.ta), fmt.Sprintf("a user-supplied type is classified as %s without looking through named types: a well-formed directive whose argument has a named %s type is rejected", s.kind, s.kind))
				}
			}
		}
	}
	if n == 0 {
		c.s.Unk("G29", "structural assertions", "", "no structural classification of a go/types.Type found in the compiler")
	}
}
