package genlint

import (
	"fmt"
	"go/ast"
	"go/types"
	"strings"

	"cffverif/internal/astx"
)

// G46: indexing the argument list of a user call.
//
// The number of argument EXPRESSIONS of a type-correct call is not the arity
// of the callee: Go lets one multi-value call stand for the whole argument
// list, so `cff.Slice(f())` and `cff.Map(f())` type-check with len(Args) == 1
// although the functions declare two fixed parameters. Every `X.Args[i]` and
// `X.Args[j:]` (X of type *go/ast.CallExpr) in the generator must therefore be
// in range for every length >= 1 that the dominating tests admit (len == 0 is
// excluded: every option whose Args the generator indexes declares at least
// one fixed parameter, and a call with no argument expression cannot feed it).
// Decided with the evaluator of G21 under the hypotheses len == 1..6.
func (c *ctx) argBounds() {
	n := 0
	for _, fc := range c.files {
		info := fc.pkg.TypesInfo
		fc := fc
		ast.Inspect(fc.file, func(nn ast.Node) bool {
			var subject, idx ast.Expr
			isSlice := false
			switch v := nn.(type) {
			case *ast.IndexExpr:
				subject, idx = v.X, v.Index
			case *ast.SliceExpr:
				subject, idx, isSlice = v.X, v.Low, true
				if v.High != nil || v.Max != nil {
					idx = nil
				}
			default:
				return true
			}
			se, ok := astx.Unparen(subject).(*ast.SelectorExpr)
			if !ok || se.Sel.Name != "Args" || !isASTCallExpr(info.TypeOf(se.X)) {
				return true
			}
			fd := fc.funcDecl(nn)
			if fd == nil {
				return true
			}
			n++
			shown := "?"
			if idx != nil {
				shown = astx.Short(idx)
			}
			form := "[%s]"
			if isSlice {
				form = "[%s:]"
			}
			key := fmt.Sprintf("%s|%s"+form, fc.funcName(nn), astx.Short(subject), shown)
			if isSlice && idx == nil {
				if sl := nn.(*ast.SliceExpr); sl.Low == nil && sl.High == nil {
					c.s.OK("G46", key, c.pos(nn), "full slice")
					return true
				}
				c.s.Unk("G46", key, c.pos(nn), "slice expression with an upper bound: not evaluated")
				return true
			}
			if c.loopBounded(fc, fd, nn, subject, idx) {
				c.s.OK("G46", key, c.pos(nn), "index is the counter of a loop bounded by this length")
				return true
			}
			conds := fc.par.Known(nn, fd)
			var badN []string
			unknown := false
			for h := 1; h <= 6; h++ {
				ev := &lenEval{fc: fc, fd: fd, subject: subject, n: h, site: nn}
				if !ev.feasible(conds) {
					continue
				}
				vals := ev.indexValues(idx, nn)
				if vals == nil {
					unknown = true
					continue
				}
				for _, v := range vals {
					if v < 0 || (!isSlice && v >= int64(h)) || (isSlice && v > int64(h)) {
						badN = append(badN, fmt.Sprintf("len=%d index=%d", h, v))
					}
				}
			}
			switch {
			case len(badN) > 0:
				c.s.Bad("G46", key, c.pos(nn), "out of range is possible: the dominating tests admit "+strings.Join(badN, ", ")+" — a directive whose arguments are one multi-value call (`cff.Slice(f())`) type-checks with a single argument expression and makes cff die with a Go panic instead of a diagnostic")
			case unknown:
				c.s.Unk("G46", key, c.pos(nn), "the index cannot be evaluated from comparisons with constants")
			default:
				c.s.OK("G46", key, c.pos(nn), "in range for every argument count >= 1 admitted by the dominating tests")
			}
			return true
		})
	}
	if n == 0 {
		c.s.Unk("G46", "index sites", "", "no index into the Args of a call expression found")
	}
}

func isASTCallExpr(t types.Type) bool {
	if t == nil {
		return false
	}
	if p, ok := t.(*types.Pointer); ok {
		t = p.Elem()
	}
	n, ok := t.(*types.Named)
	return ok && n.Obj().Name() == "CallExpr" && n.Obj().Pkg() != nil && n.Obj().Pkg().Path() == "go/ast"
}
