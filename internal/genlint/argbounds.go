package genlint

import (
	"fmt"
	"go/ast"
	"go/types"
	"strings"

	"cffverif/internal/astx"
)

// G46: indexing the argument list of a user call.
//
// The number of argument EXPRESSIONS of a type-correct call is not the arity
// of the callee: Go lets one multi-value call stand for the whole argument
// list, so `cff.Slice(f())` and `cff.Map(f())` type-check with len(Args) == 1
// although the functions declare two fixed parameters. Every `X.Args[i]` and
// `X.Args[j:]` (X of type *go/ast.CallExpr) in the generator must therefore be
// in range for every length >= 1 that the dominating tests admit (len == 0 is
// excluded: every option whose Args the generator indexes declares at least
// one fixed parameter, and a call with no argument expression cannot feed it).
// Decided with the evaluator of G21 under the hypotheses len == 1..6.
func (c *ctx) argBounds() {
	n := 0
	for _, fc := range c.files {
		info := fc.pkg.TypesInfo
		fc := fc
		ast.Inspect(fc.file, func(nn ast.Node) bool {
			var subject, idx ast.Expr
			isSlice := false
			switch v := nn.(type) {
			case *ast.IndexExpr:
				subject, idx = v.X, v.Index
			case *ast.SliceExpr:
				subject, idx, isSlice = v.X, v.Low, true
				if v.High != nil || v.Max != nil {
					idx = nil
				}
			default:
				return true
			}
			fd := fc.funcDecl(nn)
			if fd == nil {
				return true
			}
			se, ok := astx.Unparen(subject).(*ast.SelectorExpr)
			if !ok {
				// a local that holds the argument list: args := ce.Args
				if o := astx.IdentObj(info, subject); o != nil {
					if init := (&lenEval{fc: fc, fd: fd}).singleInit(o); init != nil {
						se, ok = astx.Unparen(init).(*ast.SelectorExpr)
					}
				}
			}
			if !ok || se.Sel.Name != "Args" || !isASTCallExpr(info.TypeOf(se.X)) {
				return true
			}
			n++
			shown := "?"
			if idx != nil {
				shown = astx.Short(idx)
			}
			form := "[%s]"
			if isSlice {
				form = "[%s:]"
			}
			key := fmt.Sprintf("%s|%s"+form, fc.funcName(nn), astx.Short(subject), shown)
			if isSlice && idx == nil {
				if sl := nn.(*ast.SliceExpr); sl.Low == nil && sl.High == nil {
					c.s.OK("G46", key, c.pos(nn), "full slice")
					return true
				}
				c.s.Unk("G46", key, c.pos(nn), "slice expression with an upper bound: not evaluated")
				return true
			}
			if c.loopBounded(fc, fd, nn, subject, idx) {
				c.s.OK("G46", key, c.pos(nn), "index is the counter of a loop bounded by this length")
				return true
			}
			conds := fc.par.Known(nn, fd)
			var badN []string
			unknown := false
			for h := 1; h <= 6; h++ {
				ev := &lenEval{fc: fc, fd: fd, subject: subject, n: h, site: nn}
				if !ev.feasible(conds) || !c.callersAdmit(fc, fd, se.X, h) {
					continue
				}
				vals := ev.indexValues(idx, nn)
				if vals == nil {
					unknown = true
					continue
				}
				for _, v := range vals {
					if v < 0 || (!isSlice && v >= int64(h)) || (isSlice && v > int64(h)) {
						badN = append(badN, fmt.Sprintf("len=%d index=%d", h, v))
					}
				}
			}
			switch {
			case len(badN) > 0:
				c.s.Bad("G46", key, c.pos(nn), "out of range is possible: the dominating tests admit "+strings.Join(badN, ", ")+" — a directive whose arguments are one multi-value call (`cff.Slice(f())`) type-checks with a single argument expression and makes cff die with a Go panic instead of a diagnostic")
			case unknown:
				c.s.Unk("G46", key, c.pos(nn), "the index cannot be evaluated from comparisons with constants")
			default:
				c.s.OK("G46", key, c.pos(nn), "in range for every argument count >= 1 admitted by the dominating tests")
			}
			return true
		})
	}
	if n == 0 {
		c.s.Unk("G46", "index sites", "", "no index into the Args of a call expression found")
	}
}

// callersAdmit: when the call expression whose Args are indexed is a parameter of fd, the argument
// count h must also be feasible at one of fd's call sites (a guard placed in the caller, on the Args of
// the expression it passes, protects the callee). No call site, or no test at a call site: admitted.
func (c *ctx) callersAdmit(fc *fileCtx, fd *ast.FuncDecl, x ast.Expr, h int) bool {
	info := fc.pkg.TypesInfo
	o := astx.IdentObj(info, x)
	if o == nil || fd.Type.Params == nil {
		return true
	}
	pi, k := -1, 0
	for _, f := range fd.Type.Params.List {
		for _, nm := range f.Names {
			if info.Defs[nm] == o {
				pi = k
			}
			k++
		}
	}
	fobj := info.Defs[fd.Name]
	if pi < 0 || fobj == nil {
		return true
	}
	sites, admitted := 0, false
	for _, cf := range c.files {
		if cf.pkg != fc.pkg {
			continue
		}
		cf := cf
		ast.Inspect(cf.file, func(n ast.Node) bool {
			call, ok := n.(*ast.CallExpr)
			if !ok || pi >= len(call.Args) {
				return true
			}
			if fn := astx.Callee(info, call); fn == nil || types.Object(fn) != fobj {
				return true
			}
			cfd := cf.funcDecl(call)
			if cfd == nil {
				return true
			}
			sites++
			var subj ast.Expr
			ast.Inspect(cfd, func(m ast.Node) bool {
				if s, ok := m.(*ast.SelectorExpr); ok && subj == nil && s.Sel.Name == "Args" && astx.Same(info, s.X, call.Args[pi]) {
					subj = s
				}
				return subj == nil
			})
			if subj == nil {
				admitted = true
				return true
			}
			ev := &lenEval{fc: cf, fd: cfd, subject: subj, n: h, site: call}
			if ev.feasible(cf.par.Known(call, cfd)) {
				admitted = true
			}
			return true
		})
	}
	return sites == 0 || admitted
}

func isASTCallExpr(t types.Type) bool {
	if t == nil {
		return false
	}
	if p, ok := t.(*types.Pointer); ok {
		t = p.Elem()
	}
	n, ok := t.(*types.Named)
	return ok && n.Obj().Name() == "CallExpr" && n.Obj().Pkg() != nil && n.Obj().Pkg().Path() == "go/ast"
}
