package genlint

import (
	"fmt"
	"go/ast"
	"go/types"

	"cffverif/internal/astx"
)

// G36: an error in hand is not turned into success. In the generator (internal, internal/modifier, internal/pkg,
// cmd/cff) a branch taken because an error value is not nil does not return the literal nil as the function's
// error result: cff would go on, or exit 0, with a file that was not written or is incomplete (mutation sweep of
// gen.go: 20 of the surviving mutants were `return err` → `return nil`, invisible to every corpus because no
// corpus makes a write or a template fail).
func (c *ctx) swallowedErrors() {
	n := 0
	ord := map[string]int{}
	errType := types.Universe.Lookup("error").Type()
	for _, fc := range c.files {
		info := fc.pkg.TypesInfo
		fc := fc
		ast.Inspect(fc.file, func(nn ast.Node) bool {
			is, ok := nn.(*ast.IfStmt)
			if !ok {
				return true
			}
			// cond (or one conjunct) is `e != nil` with e of type error
			var cs []astx.Cond
			astx.Split(is.Cond, true, is, &cs)
			var errExpr ast.Expr
			for _, cd := range cs {
				if e, isNil := astx.EqNil(info, cd.E); isNil && !cd.Pos {
					if t := info.TypeOf(e); t != nil && types.Identical(t, errType) {
						errExpr = e
					}
				}
			}
			if errExpr == nil {
				return true
			}
			// the enclosing function returns an error as its last result
			var ft *ast.FuncType
			for x := ast.Node(is); x != nil && ft == nil; x = fc.par[x] {
				switch f := x.(type) {
				case *ast.FuncLit:
					ft = f.Type
				case *ast.FuncDecl:
					ft = f.Type
				}
			}
			if ft == nil || ft.Results == nil || len(ft.Results.List) == 0 {
				return true
			}
			last := ft.Results.List[len(ft.Results.List)-1]
			if t := info.TypeOf(last.Type); t == nil || !types.Identical(t, errType) {
				return true
			}
			// the sticky-error idiom: the error is (or already was) recorded in a field that the caller inspects later
			recorded := false
			if _, _, isField := astx.FieldSel(info, errExpr); isField {
				recorded = true
			}
			astx.Writes(is.Body, func(l ast.Expr, at ast.Node) {
				if _, _, isField := astx.FieldSel(info, l); !isField {
					return
				}
				if as, ok := at.(*ast.AssignStmt); ok && len(as.Rhs) == 1 && astx.Same(info, as.Rhs[0], errExpr) {
					recorded = true
				}
			})
			for _, st := range is.Body.List {
				ret, ok := st.(*ast.ReturnStmt)
				if !ok || len(ret.Results) == 0 {
					continue
				}
				n++
				key := fc.funcName(is) + "|error branch returns the error: " + astx.Short(errExpr)
				ord[key]++
				if ord[key] > 1 {
					key += fmt.Sprintf("#%d", ord[key])
				}
				if recorded {
					c.s.OK("G36", key, c.pos(ret), "the error is kept in a field for the caller (sticky error)")
					continue
				}
				if astx.IsNil(info, ret.Results[len(ret.Results)-1]) {
					c.s.Bad("G36", key, c.pos(ret), "the branch taken when "+astx.Short(errExpr)+" is not nil returns nil as the error: the failure is swallowed, cff goes on (or exits 0) with a missing or incomplete output")
				} else {
					c.s.OK("G36", key, c.pos(ret), "a non-nil error is returned")
				}
			}
			return true
		})
	}
	c.s.SetFact("genlint.error_branches", n)
}
