package astx

import (
	"go/ast"
	"go/types"
	"sort"
)

// InlinedCall is a call expression met while walking a function's body in textual order, with the bodies of
// the package-local functions it calls walked in place of the call (their parameters bound to the arguments).
type InlinedCall struct {
	Call  *ast.CallExpr
	Fd    *ast.FuncDecl   // the function whose body contains Call
	Chain []*ast.CallExpr // the calls that were entered to get here, outermost first
	bind  map[types.Object]ast.Expr
	info  *types.Info
}

// Resolve replaces an identifier that names a parameter of an entered function by the argument it was
// called with (transitively); other expressions are returned as they are.
func (ic *InlinedCall) Resolve(e ast.Expr) ast.Expr {
	for i := 0; i < 8; i++ {
		id, ok := Unparen(e).(*ast.Ident)
		if !ok {
			return e
		}
		o := ObjOf(ic.info, id)
		a, ok := ic.bind[o]
		if !ok || o == nil {
			return e
		}
		e = a
	}
	return e
}

// Bindings: the parameters of the entered functions with the (resolved) arguments they stand for.
func (ic *InlinedCall) Bindings() map[types.Object]ast.Expr { return ic.bind }

// CallsInlined lists the calls of fd in textual order, entering package-local callees (declared in files)
// up to maxDepth levels. A callee is entered at most once per chain (no recursion).
func CallsInlined(info *types.Info, files []*ast.File, fd *ast.FuncDecl, maxDepth int) []*InlinedCall {
	var out []*InlinedCall
	var walk func(fd *ast.FuncDecl, chain []*ast.CallExpr, bind map[types.Object]ast.Expr, onStack map[*ast.FuncDecl]bool)
	walk = func(fd *ast.FuncDecl, chain []*ast.CallExpr, bind map[types.Object]ast.Expr, onStack map[*ast.FuncDecl]bool) {
		var calls []*ast.CallExpr
		ast.Inspect(fd.Body, func(n ast.Node) bool {
			if _, ok := n.(*ast.FuncLit); ok {
				return false
			}
			if c, ok := n.(*ast.CallExpr); ok {
				calls = append(calls, c)
			}
			return true
		})
		sort.SliceStable(calls, func(i, j int) bool { return calls[i].Pos() < calls[j].Pos() })
		for _, c := range calls {
			ic := &InlinedCall{Call: c, Fd: fd, Chain: append([]*ast.CallExpr(nil), chain...), bind: bind, info: info}
			out = append(out, ic)
			if len(chain) >= maxDepth {
				continue
			}
			fn := Callee(info, c)
			if fn == nil {
				continue
			}
			d := DeclOfFunc(info, files, fn)
			if d == nil || d.Body == nil || onStack[d] {
				continue
			}
			nb := map[types.Object]ast.Expr{}
			for k, v := range bind {
				nb[k] = v
			}
			k := 0
			for _, f := range d.Type.Params.List {
				for _, nm := range f.Names {
					if k < len(c.Args) {
						nb[info.Defs[nm]] = ic.Resolve(c.Args[k])
					}
					k++
				}
			}
			onStack[d] = true
			walk(d, append(chain, c), nb, onStack)
			delete(onStack, d)
		}
	}
	walk(fd, nil, map[types.Object]ast.Expr{}, map[*ast.FuncDecl]bool{fd: true})
	return out
}
