// Package astx: helpers over go/ast + go/types for structured-code rules.
//
// All functions analysed by the rules are required to be goto/label free
// (checked by NoGoto); for such code lexical nesting determines dominance:
// a statement inside the body of `if c {` executes only when c held at the
// test, and a statement following `if c { ...; return }` only when c did not.
package astx

import (
	"go/ast"
	"go/constant"
	"go/token"
	"go/types"
	"strings"
)

// Parents maps every node under root to its parent.
type Parents map[ast.Node]ast.Node

func NewParents(root ast.Node) Parents {
	p := Parents{}
	var stack []ast.Node
	ast.Inspect(root, func(n ast.Node) bool {
		if n == nil {
			stack = stack[:len(stack)-1]
			return true
		}
		if len(stack) > 0 {
			p[n] = stack[len(stack)-1]
		}
		stack = append(stack, n)
		return true
	})
	return p
}

// Enclosing returns the nearest ancestor of n (excluding n) satisfying pred.
func (p Parents) Enclosing(n ast.Node, pred func(ast.Node) bool) ast.Node {
	for x := p[n]; x != nil; x = p[x] {
		if pred(x) {
			return x
		}
	}
	return nil
}

// EnclosingFunc returns the innermost FuncLit or FuncDecl containing n.
func (p Parents) EnclosingFunc(n ast.Node) ast.Node {
	return p.Enclosing(n, func(x ast.Node) bool {
		switch x.(type) {
		case *ast.FuncLit, *ast.FuncDecl:
			return true
		}
		return false
	})
}

// Within reports whether n is anc or a descendant of anc.
func (p Parents) Within(n, anc ast.Node) bool {
	for x := n; x != nil; x = p[x] {
		if x == anc {
			return true
		}
	}
	return false
}

// InLoop returns the innermost for/range statement enclosing n within the
// same function (not crossing a FuncLit boundary), or nil.
func (p Parents) InLoop(n ast.Node) ast.Stmt {
	for x := p[n]; x != nil; x = p[x] {
		switch s := x.(type) {
		case *ast.ForStmt:
			return s
		case *ast.RangeStmt:
			return s
		case *ast.FuncLit, *ast.FuncDecl:
			return nil
		}
	}
	return nil
}

// NoGoto reports whether body has no goto, labels or fallthrough.
func NoGoto(body ast.Node) bool {
	ok := true
	ast.Inspect(body, func(n ast.Node) bool {
		switch s := n.(type) {
		case *ast.LabeledStmt:
			ok = false
		case *ast.BranchStmt:
			if s.Tok == token.GOTO || s.Tok == token.FALLTHROUGH || s.Label != nil {
				ok = false
			}
		}
		return ok
	})
	return ok
}

// Cond is an atomic condition known to hold (Pos) or not to hold (!Pos).
type Cond struct {
	E   ast.Expr
	Pos bool
	At  ast.Node // the statement that tested it
}

func unparen(e ast.Expr) ast.Expr {
	for {
		p, ok := e.(*ast.ParenExpr)
		if !ok {
			return e
		}
		e = p.X
	}
}

func Unparen(e ast.Expr) ast.Expr { return unparen(e) }

// Split decomposes a condition known to be `pos` into atomic facts.
func Split(e ast.Expr, pos bool, at ast.Node, out *[]Cond) {
	e = unparen(e)
	switch x := e.(type) {
	case *ast.UnaryExpr:
		if x.Op == token.NOT {
			Split(x.X, !pos, at, out)
			return
		}
	case *ast.BinaryExpr:
		switch x.Op {
		case token.LAND:
			if pos {
				Split(x.X, true, at, out)
				Split(x.Y, true, at, out)
				return
			}
		case token.LOR:
			if !pos {
				Split(x.X, false, at, out)
				Split(x.Y, false, at, out)
				return
			}
		case token.NEQ:
			// a != b  known pos  ==  (a == b) known !pos
			eq := &ast.BinaryExpr{X: x.X, Op: token.EQL, Y: x.Y, OpPos: x.OpPos}
			*out = append(*out, Cond{eq, !pos, at})
			return
		}
	}
	*out = append(*out, Cond{e, pos, at})
}

// Terminates reports whether control never falls out of the end of s
// into the statement that follows it.
func Terminates(s ast.Stmt) bool {
	switch x := s.(type) {
	case *ast.ReturnStmt:
		return true
	case *ast.BranchStmt:
		return x.Tok == token.CONTINUE || x.Tok == token.BREAK || x.Tok == token.GOTO
	case *ast.ExprStmt:
		if c, ok := x.X.(*ast.CallExpr); ok {
			if id, ok := c.Fun.(*ast.Ident); ok && id.Name == "panic" {
				return true
			}
		}
	case *ast.BlockStmt:
		if len(x.List) == 0 {
			return false
		}
		return Terminates(x.List[len(x.List)-1])
	case *ast.IfStmt:
		if x.Else == nil {
			return false
		}
		return Terminates(x.Body) && Terminates(x.Else)
	}
	return false
}

// stmtList returns the statement list of a block-like node, or nil.
func stmtList(n ast.Node) []ast.Stmt {
	switch x := n.(type) {
	case *ast.BlockStmt:
		return x.List
	case *ast.CaseClause:
		return x.Body
	case *ast.CommClause:
		return x.Body
	}
	return nil
}

// Known returns the atomic conditions established by the lexical context
// of n, walking up to (not beyond) the function boundary `stop` (a FuncLit,
// FuncDecl or any ancestor). It does NOT check that the operands were left
// unmodified between the test and n; rules do that for the operands they
// care about (see AssignsTo).
func (p Parents) Known(n ast.Node, stop ast.Node) []Cond {
	var out []Cond
	child := n
	for x := p[n]; x != nil; child, x = x, p[x] {
		switch s := x.(type) {
		case *ast.IfStmt:
			if x == stop {
				break
			}
			if child == ast.Node(s.Body) {
				Split(s.Cond, true, s, &out)
			} else if s.Else != nil && child == ast.Node(s.Else) {
				Split(s.Cond, false, s, &out)
			}
		case *ast.ForStmt:
			if child == ast.Node(s.Body) && s.Cond != nil {
				Split(s.Cond, true, s, &out)
			}
		case *ast.BinaryExpr:
			// short-circuit evaluation: the right operand of && is evaluated when the left one held, that of ||
			// when it did not
			if child == ast.Node(s.Y) {
				switch s.Op {
				case token.LAND:
					Split(s.X, true, s, &out)
				case token.LOR:
					Split(s.X, false, s, &out)
				}
			}
		case *ast.CaseClause:
			// switch { case c: } => c holds (single expr); switch tag { case v: } => tag == v
			if sw, ok := p[p[s]].(*ast.SwitchStmt); ok {
				if len(s.List) == 1 && isStmtOf(child, s.Body) {
					if sw.Tag == nil {
						Split(s.List[0], true, s, &out)
					} else {
						Split(&ast.BinaryExpr{X: sw.Tag, Op: token.EQL, Y: s.List[0]}, true, s, &out)
					}
				}
				// the conditions of all earlier clauses of a tagless switch were false
				// (also while this clause's own condition is being evaluated)
				if sw.Tag == nil {
					for _, prev := range sw.Body.List {
						pc := prev.(*ast.CaseClause)
						if pc == s {
							break
						}
						for _, e := range pc.List {
							Split(e, false, pc, &out)
						}
					}
				}
			}
		}
		if list := stmtList(x); list != nil {
			for _, sib := range list {
				if ast.Node(sib) == child {
					break
				}
				if is, ok := sib.(*ast.IfStmt); ok {
					if Terminates(is.Body) && (is.Else == nil || !Terminates(is.Else)) {
						Split(is.Cond, false, is, &out)
					} else if is.Else != nil && Terminates(is.Else) && !Terminates(is.Body) {
						Split(is.Cond, true, is, &out)
					}
				}
				if sw, ok := sib.(*ast.SwitchStmt); ok && sw.Init == nil {
					afterSwitch(sw, &out)
				}
			}
		}
		if x == stop {
			break
		}
		switch x.(type) {
		case *ast.FuncLit, *ast.FuncDecl:
			return out
		}
	}
	return out
}

func isStmtOf(n ast.Node, list []ast.Stmt) bool {
	for _, s := range list {
		if ast.Node(s) == n {
			return true
		}
	}
	return false
}

// StmtOf returns the statement (direct child of a block-like node) containing n.
func (p Parents) StmtOf(n ast.Node) ast.Stmt {
	for x := n; x != nil; x = p[x] {
		if s, ok := x.(ast.Stmt); ok {
			if stmtList(p[x]) != nil {
				return s
			}
		}
	}
	return nil
}

// Same reports structural equality of two expressions with identifiers
// compared by the object they denote.
func Same(info *types.Info, a, b ast.Expr) bool {
	a, b = unparen(a), unparen(b)
	switch x := a.(type) {
	case *ast.Ident:
		y, ok := b.(*ast.Ident)
		if !ok {
			return false
		}
		ox, oy := ObjOf(info, x), ObjOf(info, y)
		if ox == nil || oy == nil {
			return x.Name == y.Name
		}
		return ox == oy
	case *ast.SelectorExpr:
		y, ok := b.(*ast.SelectorExpr)
		return ok && x.Sel.Name == y.Sel.Name && Same(info, x.X, y.X) && ObjOf(info, x.Sel) == ObjOf(info, y.Sel)
	case *ast.BasicLit:
		y, ok := b.(*ast.BasicLit)
		return ok && x.Kind == y.Kind && x.Value == y.Value
	case *ast.StarExpr:
		y, ok := b.(*ast.StarExpr)
		return ok && Same(info, x.X, y.X)
	case *ast.UnaryExpr:
		y, ok := b.(*ast.UnaryExpr)
		return ok && x.Op == y.Op && Same(info, x.X, y.X)
	case *ast.BinaryExpr:
		y, ok := b.(*ast.BinaryExpr)
		return ok && x.Op == y.Op && Same(info, x.X, y.X) && Same(info, x.Y, y.Y)
	case *ast.IndexExpr:
		y, ok := b.(*ast.IndexExpr)
		return ok && Same(info, x.X, y.X) && Same(info, x.Index, y.Index)
	case *ast.CallExpr:
		y, ok := b.(*ast.CallExpr)
		if !ok || len(x.Args) != len(y.Args) || !Same(info, x.Fun, y.Fun) {
			return false
		}
		for i := range x.Args {
			if !Same(info, x.Args[i], y.Args[i]) {
				return false
			}
		}
		return true
	}
	return false
}

// ObjOf resolves an identifier to its object (use or def).
func ObjOf(info *types.Info, id *ast.Ident) types.Object {
	if o := info.Uses[id]; o != nil {
		return o
	}
	return info.Defs[id]
}

// IdentObj returns the object of e if e is an identifier.
func IdentObj(info *types.Info, e ast.Expr) types.Object {
	if id, ok := unparen(e).(*ast.Ident); ok {
		return ObjOf(info, id)
	}
	return nil
}

// FieldSel: if e is `x.f` selecting struct field f, returns (x, f).
func FieldSel(info *types.Info, e ast.Expr) (ast.Expr, *types.Var, bool) {
	s, ok := unparen(e).(*ast.SelectorExpr)
	if !ok {
		return nil, nil, false
	}
	if sel := info.Selections[s]; sel != nil && sel.Kind() == types.FieldVal {
		if v, ok := sel.Obj().(*types.Var); ok {
			return s.X, v, true
		}
	}
	return nil, nil, false
}

// IsFieldOf reports whether e is `<ident of obj>.f`.
func IsFieldOf(info *types.Info, e ast.Expr, obj types.Object, f *types.Var) bool {
	x, v, ok := FieldSel(info, e)
	return ok && v == f && obj != nil && IdentObj(info, x) == obj
}

// Callee returns the function or method object called by c (nil for
// builtins, conversions, calls of function values).
func Callee(info *types.Info, c *ast.CallExpr) *types.Func {
	var id *ast.Ident
	switch f := unparen(c.Fun).(type) {
	case *ast.Ident:
		id = f
	case *ast.SelectorExpr:
		id = f.Sel
	case *ast.IndexExpr: // generic instantiation
		switch g := unparen(f.X).(type) {
		case *ast.Ident:
			id = g
		case *ast.SelectorExpr:
			id = g.Sel
		}
	}
	if id == nil {
		return nil
	}
	fn, _ := info.Uses[id].(*types.Func)
	return fn
}

// IsBuiltin reports whether c calls the named builtin.
func IsBuiltin(info *types.Info, c *ast.CallExpr, name string) bool {
	id, ok := unparen(c.Fun).(*ast.Ident)
	if !ok || id.Name != name {
		return false
	}
	_, ok = info.Uses[id].(*types.Builtin)
	return ok
}

// FuncFullName returns "pkgpath.Name" or "(pkgpath.T).Name"/"(*pkgpath.T).Name".
func FuncFullName(f *types.Func) string {
	if f == nil {
		return ""
	}
	return f.FullName()
}

// IsConst reports whether e is a constant with the given int value.
func IsIntConst(info *types.Info, e ast.Expr, n int64) bool {
	tv, ok := info.Types[e]
	if !ok || tv.Value == nil || tv.Value.Kind() != constant.Int {
		return false
	}
	v, ok := constant.Int64Val(tv.Value)
	return ok && v == n
}

func IsBoolConst(info *types.Info, e ast.Expr, b bool) bool {
	tv, ok := info.Types[e]
	if !ok || tv.Value == nil || tv.Value.Kind() != constant.Bool {
		return false
	}
	return constant.BoolVal(tv.Value) == b
}

func IsNil(info *types.Info, e ast.Expr) bool {
	tv, ok := info.Types[unparen(e)]
	return ok && tv.IsNil()
}

// EqConst: if c is `e == k` / `k == e` with integer constant k returns (e,k,true).
func EqIntConst(info *types.Info, c ast.Expr) (ast.Expr, int64, bool) {
	b, ok := unparen(c).(*ast.BinaryExpr)
	if !ok || b.Op != token.EQL {
		return nil, 0, false
	}
	for _, pr := range [][2]ast.Expr{{b.X, b.Y}, {b.Y, b.X}} {
		if tv, ok := info.Types[pr[1]]; ok && tv.Value != nil && tv.Value.Kind() == constant.Int {
			v, _ := constant.Int64Val(tv.Value)
			return pr[0], v, true
		}
	}
	return nil, 0, false
}

// EqNil: if c is `e == nil` / `nil == e` returns e.
func EqNil(info *types.Info, c ast.Expr) (ast.Expr, bool) {
	b, ok := unparen(c).(*ast.BinaryExpr)
	if !ok || b.Op != token.EQL {
		return nil, false
	}
	if IsNil(info, b.Y) {
		return b.X, true
	}
	if IsNil(info, b.X) {
		return b.Y, true
	}
	return nil, false
}

// Assigns lists the lvalue expressions written by statement-level node n
// (AssignStmt incl. :=, IncDec, range key/value).
func Assigns(n ast.Node) []ast.Expr {
	switch s := n.(type) {
	case *ast.AssignStmt:
		return s.Lhs
	case *ast.IncDecStmt:
		return []ast.Expr{s.X}
	case *ast.RangeStmt:
		var out []ast.Expr
		if s.Key != nil {
			out = append(out, s.Key)
		}
		if s.Value != nil {
			out = append(out, s.Value)
		}
		return out
	}
	return nil
}

// Writes calls f for every lvalue written anywhere under root (descending into FuncLits).
func Writes(root ast.Node, f func(lhs ast.Expr, at ast.Node)) {
	ast.Inspect(root, func(n ast.Node) bool {
		if n == nil {
			return true
		}
		for _, l := range Assigns(n) {
			f(l, n)
		}
		return true
	})
}

// Short renders an expression compactly.
func Short(e ast.Expr) string {
	s := types.ExprString(e)
	if len(s) > 80 {
		s = s[:77] + "..."
	}
	return strings.ReplaceAll(s, "\n", " ")
}

// FindFuncDecl finds a function or method declaration in files. recv is ""
// for functions, else the receiver's named type (without '*').
func FindFuncDecl(files []*ast.File, recv, name string) *ast.FuncDecl {
	for _, f := range files {
		for _, d := range f.Decls {
			fd, ok := d.(*ast.FuncDecl)
			if !ok || fd.Name.Name != name {
				continue
			}
			if recv == "" && fd.Recv == nil {
				return fd
			}
			if recv != "" && fd.Recv != nil && len(fd.Recv.List) == 1 {
				t := fd.Recv.List[0].Type
				if s, ok := t.(*ast.StarExpr); ok {
					t = s.X
				}
				if ix, ok := t.(*ast.IndexExpr); ok {
					t = ix.X
				}
				if id, ok := t.(*ast.Ident); ok && id.Name == recv {
					return fd
				}
			}
		}
	}
	return nil
}

// DeclOfFunc finds the FuncDecl that declares fn.
func DeclOfFunc(info *types.Info, files []*ast.File, fn *types.Func) *ast.FuncDecl {
	for _, f := range files {
		for _, d := range f.Decls {
			if fd, ok := d.(*ast.FuncDecl); ok && info.Defs[fd.Name] == fn {
				return fd
			}
		}
	}
	return nil
}

// afterSwitch: what is known after a switch statement some of whose clauses terminate (return / continue /
// panic): no terminating clause was taken; if the default clause terminates, one of the others was.
func afterSwitch(sw *ast.SwitchStmt, out *[]Cond) {
	cond := func(e ast.Expr) ast.Expr {
		if sw.Tag == nil {
			return e
		}
		return &ast.BinaryExpr{X: sw.Tag, Op: token.EQL, Y: e}
	}
	var others ast.Expr // disjunction of the conditions of all non-default clauses
	defaultTerminates := false
	hasFallthrough := false
	for _, st := range sw.Body.List {
		cc := st.(*ast.CaseClause)
		for _, b := range cc.Body {
			if br, ok := b.(*ast.BranchStmt); ok && br.Tok == token.FALLTHROUGH {
				hasFallthrough = true
			}
		}
	}
	if hasFallthrough {
		return
	}
	for _, st := range sw.Body.List {
		cc := st.(*ast.CaseClause)
		term := clauseLeaves(cc)
		if cc.List == nil {
			defaultTerminates = term
			continue
		}
		for _, e := range cc.List {
			c := cond(e)
			if others == nil {
				others = c
			} else {
				others = &ast.BinaryExpr{X: others, Op: token.LOR, Y: c}
			}
			if term && sw.Tag != nil {
				// a tagged switch compares the tag with each value independently: the value was not this one
				Split(c, false, cc, out)
			}
		}
	}
	if sw.Tag == nil {
		// tagless: clause k is taken iff its condition holds and all earlier ones do not; a terminating clause not
		// taken means: an earlier clause was taken, or its condition is false. Only the prefix of terminating
		// clauses gives a simple fact.
		for _, st := range sw.Body.List {
			cc := st.(*ast.CaseClause)
			if cc.List == nil || !clauseLeaves(cc) {
				break
			}
			for _, e := range cc.List {
				Split(e, false, cc, out)
			}
		}
	}
	if defaultTerminates && others != nil {
		*out = append(*out, Cond{E: others, Pos: true, At: sw})
	}
}

// clauseLeaves: control does not continue after the switch when this clause was taken (an unlabelled break
// leaves the switch only).
func clauseLeaves(cc *ast.CaseClause) bool {
	if len(cc.Body) == 0 {
		return false
	}
	last := cc.Body[len(cc.Body)-1]
	if br, ok := last.(*ast.BranchStmt); ok && br.Tok == token.BREAK && br.Label == nil {
		return false
	}
	leaves := true
	ast.Inspect(last, func(n ast.Node) bool {
		switch x := n.(type) {
		case *ast.FuncLit, *ast.ForStmt, *ast.RangeStmt, *ast.SwitchStmt, *ast.TypeSwitchStmt, *ast.SelectStmt:
			return false
		case *ast.BranchStmt:
			if x.Tok == token.BREAK && x.Label == nil {
				leaves = false
			}
		}
		return true
	})
	return leaves && Terminates(last)
}
