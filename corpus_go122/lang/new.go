//go:build cff

package lang

import (
	"context"

	"go.uber.org/cff"
)

// New: go 1.22 semantics.
func New(ctx context.Context, xs []string, m map[string]int) error {
	return cff.Parallel(ctx,
		cff.Slice(func(s string) error { return nil }, xs),
		cff.Map(func(k string, v int) error { return nil }, m),
	)
}
