//go:build cff && go1.21

package lang

import (
	"context"

	"go.uber.org/cff"
)

// Old: this file keeps the pre-1.22 loop variable semantics although the module is on go 1.22.
func Old(ctx context.Context, xs []string, m map[string]int) error {
	return cff.Parallel(ctx,
		cff.Slice(func(i int, s string) {}, xs, cff.SliceEnd(func() {})),
		cff.Map(func(k string, v int) {}, m, cff.MapEnd(func() {})),
	)
}
