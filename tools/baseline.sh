#!/bin/sh
# Runs the pinned test suite (BASELINE.json cmd) against /repo and compares with stable_pass.
export GOFLAGS=-mod=mod GOPROXY=off GOSUMDB=off GOTOOLCHAIN=local
OUT=$(mktemp); trap 'rm -f $OUT' EXIT
for m in . ./internal/tests; do (cd /repo/$m && go test -mod=mod -json -vet=off -count=1 -timeout 25m ./...); done > $OUT 2>/dev/null
python3 - $OUT <<'PY'
import json,sys
b=json.load(open('/root/.vp/BASELINE.json'))
res={}
for l in open(sys.argv[1]):
    try: e=json.loads(l)
    except: continue
    if e.get('Action') in('pass','fail') and e.get('Test'):
        res[e['Package']+'::'+e['Test']]=e['Action']
sp=set(b['stable_pass'])
missing=[t for t in sp if res.get(t)!='pass']
print('stable_pass',len(sp),'passing',len(sp)-len(missing),'missing',missing[:10])
print('failing:',[t for t,a in res.items() if a=='fail'])
sys.exit(1 if missing else 0)
PY
