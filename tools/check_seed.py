#!/usr/bin/env python3
"""check_seed.py <seed dir>...  — applies each seed's patch.diff to a scratch copy of /repo and runs every registered quick check against it.
Prints which property checks raise an alarm (and by which rules)."""
import json, os, subprocess, sys, tempfile, shutil, re
env = dict(os.environ, GOFLAGS="-mod=mod", GOPROXY="off", GOSUMDB="off", GOTOOLCHAIN="local")
man = json.load(open("/verif/MANIFEST.json"))
for seed in sys.argv[1:]:
    seed = os.path.abspath(seed)
    meta = json.load(open(os.path.join(seed, "meta.json")))
    tmp = tempfile.mkdtemp(prefix="seedchk-")
    flagged = {}
    try:
        sc = os.path.join(tmp, "repo")
        subprocess.run(f"rsync -a --exclude .git --exclude SEED /repo/ {sc}/ && cd {sc} && git init -q . && git apply {seed}/patch.diff", shell=True, check=True)
        for c in man["checks"]:
            p = subprocess.run(c["quick_cmd"], shell=True, capture_output=True, text=True, env=dict(env, CFFVERIF_REPO=sc, CFFVERIF_DIR=tmp))
            if p.returncode != 0:
                rules = sorted(set(re.findall(r"^(?:VIOLATED|UNDECIDED) .*? \[([A-Z]+\d*)\]", p.stdout, re.M)))
                flagged[c["property_id"]] = rules
    finally:
        shutil.rmtree(tmp, ignore_errors=True)
    own = meta.get("property")
    print(f"{os.path.basename(os.path.dirname(os.path.dirname(seed)))}_{os.path.basename(seed)} own={own} {'CAUGHT' if own in flagged else 'MISSED'} by={flagged.get(own)} others={ {k:v for k,v in flagged.items() if k!=own} }")
