#!/bin/sh
# Regenerates every checked-in generated file of a scratch copy of /repo with the generator built from it,
# reports which generated files changed, and runs the test suites of the regenerated modules.
export GOFLAGS=-mod=mod GOPROXY=off GOSUMDB=off GOTOOLCHAIN=local
T=$(mktemp -d); trap 'rm -rf "$T"' EXIT
rsync -a --exclude .git /repo/ $T/repo/
cd $T/repo && go build -o $T/bin/cff ./cmd/cff || exit 2
export PATH=$T/bin:$PATH
for m in ${MODS:-internal/tests examples docs}; do
  echo "--- generate $m"
  (cd $T/repo/$m && go generate -tags cff ./... 2>&1 | grep -v "^Processed" | head -20)
done
echo "--- changed generated files:"
(cd $T/repo && for f in $(find . -name '*_gen.go' -o -name '*_gen_test.go'); do cmp -s $f /repo/$f || echo "  $f"; done | sort | head -80)
for m in ${MODS:-internal/tests examples docs}; do
  echo "--- test $m"
  (cd $T/repo/$m && go test -count=1 ./... 2>&1 | grep -v "^ok\|no test files" | head -30)
done
echo "--- done"
