#!/usr/bin/env python3
"""try_seed.py <seed dir> [--skip-tests]
Confirms a seeded change (patch.diff + demo/run.sh + meta.json) and runs the checks against it.
 1. scratch copy of /repo + patch: go build, both test suites (stable_pass must still pass), demo must FAIL
 2. demo on unchanged /repo must PASS
 3. git -C /repo apply patch; run every cffverif check (quick); git -C /repo checkout -- .
Prints a JSON summary."""
import json, os, subprocess, sys, tempfile, shutil
seed = os.path.abspath(sys.argv[1]); skip = "--skip-tests" in sys.argv
env = dict(os.environ, GOFLAGS="-mod=mod", GOPROXY="off", GOSUMDB="off", GOTOOLCHAIN="local")
patch = os.path.join(seed, "patch.diff")
meta = json.load(open(os.path.join(seed, "meta.json")))
res = {"seed": seed, "property": meta.get("property")}
def sh(cmd, cwd=None, timeout=1800):
    p = subprocess.run(cmd, shell=True, cwd=cwd, env=env, capture_output=True, text=True, timeout=timeout)
    return p.returncode, (p.stdout + p.stderr)
tmp = tempfile.mkdtemp(prefix="seedtry-")
try:
    scratch = os.path.join(tmp, "repo")
    sh(f"rsync -a --exclude .git --exclude SEED /repo/ {scratch}/")
    rc, out = sh(f"git init -q . && git apply {patch}", cwd=scratch)
    res["applies"] = rc == 0
    if rc != 0:
        res["apply_err"] = out[-300:]
    rc, out = sh("go build ./...", cwd=scratch); res["builds"] = rc == 0
    if not skip:
        base = json.load(open("/root/.vp/BASELINE.json"))
        passed = set()
        for m in [".", "internal/tests"]:
            rc, out = sh("go test -mod=mod -json -vet=off -count=1 -timeout 25m ./...", cwd=os.path.join(scratch, m))
            for l in out.splitlines():
                try: e = json.loads(l)
                except Exception: continue
                if e.get("Action") == "pass" and e.get("Test"): passed.add(e["Package"] + "::" + e["Test"])
        missing = [t for t in base["stable_pass"] if t not in passed]
        res["suite_ok"] = not missing; res["suite_missing"] = missing[:5]
    demo = os.path.join(seed, "demo", "run.sh")
    rc, out = sh(f"sh {demo} {scratch}", cwd=os.path.join(seed, "demo"), timeout=1200); res["demo_fails_with_change"] = rc != 0; res["demo_out_changed"] = out[-400:]
    rc, out = sh(f"sh {demo} /repo", cwd=os.path.join(seed, "demo"), timeout=1200); res["demo_passes_unchanged"] = rc == 0
    if rc != 0: res["demo_out_unchanged"] = out[-400:]
finally:
    shutil.rmtree(tmp, ignore_errors=True)
# checks: by default against a scratch copy (CFFVERIF_REPO), with --in-repo against /repo itself (apply, run, undo)
flagged = {}
man = json.load(open("/verif/MANIFEST.json"))
def run_checks(extra_env):
    for c in man["checks"]:
        p = subprocess.run(c["quick_cmd"], shell=True, capture_output=True, text=True, env=dict(env, **extra_env))
        if p.returncode != 0:
            rules = sorted({l.split("[")[1].split("]")[0] for l in p.stdout.splitlines() if l.startswith(("VIOLATED", "UNDECIDED")) and "[" in l})
            flagged[c["property_id"]] = rules
if "--no-checks" in sys.argv:
    pass
elif "--in-repo" in sys.argv:
    assert subprocess.run("git -C /repo status --porcelain --untracked-files=no", shell=True, capture_output=True, text=True).stdout.strip() == "", "/repo not clean"
    sh(f"git -C /repo apply {patch}")
    try:
        run_checks({})
    finally:
        sh("git -C /repo checkout -- .")
else:
    tmp2 = tempfile.mkdtemp(prefix="seedchk-")
    try:
        sc2 = os.path.join(tmp2, "repo")
        sh(f"rsync -a --exclude .git --exclude SEED /repo/ {sc2}/")
        sh(f"git init -q . && git apply {patch}", cwd=sc2)
        run_checks({"CFFVERIF_REPO": sc2, "CFFVERIF_DIR": tmp2})
    finally:
        shutil.rmtree(tmp2, ignore_errors=True)
res["flagged_by"] = flagged
res["caught_by_own_property_check"] = meta.get("property") in flagged
res["summary"] = meta.get("summary"); res["needs"] = meta.get("needs")
print(json.dumps(res, indent=1))
