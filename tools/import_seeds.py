#!/usr/bin/env python3
"""Copies confirmed seeded changes from the sub-agents' worktrees into /verif/seeded/<id>/ (patch.diff, demo/, meta.json)."""
import json, os, shutil, glob
for res in sorted(glob.glob('/tmp/wt/results/C*_*.json')):
    r = json.load(open(res))
    ok = r.get("applies") and r.get("builds") and r.get("suite_ok") and r.get("demo_fails_with_change") and r.get("demo_passes_unchanged")
    if not ok:
        print("skip (not confirmed):", res); continue
    seed = r["seed"]; sid = os.path.basename(res)[:-5]
    if not os.path.isdir(seed):
        continue  # imported in an earlier round; its worktree is gone
    dst = f"/verif/seeded/{sid}"
    if os.path.exists(dst): shutil.rmtree(dst)
    os.makedirs(dst)
    shutil.copy(os.path.join(seed, "patch.diff"), dst)
    shutil.copytree(os.path.join(seed, "demo"), os.path.join(dst, "demo"))
    meta = json.load(open(os.path.join(seed, "meta.json")))
    meta["id"] = sid
    meta["origin"] = "independent sub-agent given only the property text and a scratch worktree of /repo"
    meta["confirmed"] = {
        "how": "tools/try_seed.py: patch applied to a scratch copy of /repo; go build ./...; pinned suites of . and internal/tests (all 364 stable tests pass); demo/run.sh <changed copy> fails; demo/run.sh /repo passes",
        "builds": r["builds"], "suite_ok": r["suite_ok"], "demo_fails_with_change": r["demo_fails_with_change"], "demo_passes_unchanged": r["demo_passes_unchanged"],
        "demo_output_with_change": r.get("demo_out_changed", "")[-300:],
    }
    json.dump(meta, open(os.path.join(dst, "meta.json"), "w"), indent=1)
    print("imported", sid)
