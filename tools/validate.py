#!/usr/bin/env python3
import json, jsonschema, glob, sys
jsonschema.validate(json.load(open('/verif/MANIFEST.json')), json.load(open('/root/.vp/MANIFEST.schema.json'))); print('manifest valid')
S = json.load(open('/root/.vp/EVIDENCE.schema.json'))
for f in sorted(glob.glob('/verif/evidence/*.json')):
    jsonschema.validate(json.load(open(f)), S)
print(len(glob.glob('/verif/evidence/*.json')), 'evidence files valid')
