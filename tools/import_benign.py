#!/usr/bin/env python3
"""import_benign.py <agent-id> [<agent-id> ...]: copies /tmp/wt/<id>/SEED/patch{1,2,3}.diff to selftest/benign/<id>_<n>.diff
and appends the cases to selftest/benign_agents.json (skips the ones already present)."""
import json, os, shutil, sys
root = os.path.dirname(os.path.dirname(os.path.abspath(__file__)))
path = os.path.join(root, 'selftest', 'benign_agents.json')
cases = json.load(open(path))
names = {c['name'] for c in cases}
for aid in sys.argv[1:]:
    seed = f'/tmp/wt/{aid}/SEED'
    try:
        meta = json.load(open(os.path.join(seed, 'meta.json')))
    except Exception as e:
        print(aid, 'no meta.json', e)
        meta = {'patches': []}
    for n in (1, 2, 3):
        src = os.path.join(seed, f'patch{n}.diff')
        if not os.path.exists(src):
            continue
        name = f'benign-agent-{aid}-{n}'
        if name in names:
            continue
        dst = os.path.join(root, 'selftest', 'benign', f'{aid}_{n}.diff')
        shutil.copy(src, dst)
        why = ''
        for p in meta.get('patches', []):
            if p.get('file') == f'patch{n}.diff':
                why = (p.get('kind', '') + ': ' + p.get('summary', ''))[:300]
        cases.append({'name': name, 'patch': f'selftest/benign/{aid}_{n}.diff', 'expect': [], 'benign': True, 'engines': 'all', 'why': why})
        print('added', name)
json.dump(cases, open(path, 'w'), indent=1, ensure_ascii=False)
open(path, 'a').write('\n')
