#!/usr/bin/env python3
"""run_seeded_fast.py [dir ...]  : for each seed dir (default /verif/seeded/C*), apply patch.diff to a scratch copy of
/repo, run `cffverif obligations --engines all` once, and map the new failing rules to properties (rule.Props).
Prints one line per seed and, with no arguments, rewrites seeded/RESULTS.md."""
import json, os, subprocess, sys, tempfile, shutil, glob, concurrent.futures
env = dict(os.environ, GOFLAGS="-mod=mod", GOPROXY="off", GOSUMDB="off", GOTOOLCHAIN="local", GOWORK="off")
BIN = "/verif/bin/cffverif"
rules = {r["ID"]: r["Props"] for r in json.loads(subprocess.run([BIN, "rules"], capture_output=True, text=True, env=env).stdout)}
def obligations(repo, tmp):
    e = dict(env)
    if repo: e.update(CFFVERIF_REPO=repo, CFFVERIF_DIR=tmp)
    p = subprocess.run([BIN, "obligations", "--engines", "all"], capture_output=True, text=True, env=e)
    try: obs = json.loads(p.stdout)
    except Exception: return None, p.stderr[-400:]
    return {(o["rule"], o["key"]): o for o in obs if o["status"] != "discharged"}, ""
base, err = obligations(None, None)
assert base is not None, err
def one(seed):
    meta = json.load(open(os.path.join(seed, "meta.json")))
    tmp = tempfile.mkdtemp(prefix="seedfast-")
    try:
        sc = os.path.join(tmp, "repo")
        r = subprocess.run(f"rsync -a --exclude .git --exclude SEED /repo/ {sc}/ && cd {sc} && git init -q . && git apply {seed}/patch.diff", shell=True, capture_output=True, text=True)
        if r.returncode != 0: return meta, None, "apply failed: " + r.stderr[-200:]
        bad, err = obligations(sc, tmp)
        if bad is None: return meta, None, err
        new = {k: v for k, v in bad.items() if k not in base}
        return meta, new, ""
    finally:
        shutil.rmtree(tmp, ignore_errors=True)
seeds = sys.argv[1:] or sorted(glob.glob("/verif/seeded/C*"))
rows = []
with concurrent.futures.ThreadPoolExecutor(max_workers=5) as ex:
    for meta, new, err in ex.map(one, seeds):
        sid = meta.get("id") or meta.get("property")
        own = meta["property"]
        if new is None:
            print(sid, "ERROR", err); continue
        byprop = {}
        for (rule, key), o in new.items():
            props = rules.get(rule) or (list(rules_all) if False else [])
            if rule == "ENGINE":
                props = ["*"]
            for p in props:
                byprop.setdefault(p, set()).add(rule)
        engine_fail = "*" in byprop
        ownrules = sorted(byprop.get(own, set()))
        caught = bool(ownrules) or engine_fail
        others = {p: sorted(r) for p, r in byprop.items() if p not in (own, "*")}
        rows.append((sid, own, caught, ownrules, engine_fail, others, meta.get("summary", "")[:160].replace("\n", " ").replace("|", "/")))
        print(sid, "CAUGHT" if caught else "MISSED", ownrules, "(engine/floor failure)" if engine_fail else "", "others:", ",".join(sorted(others)), flush=True)
if len(sys.argv) == 1:
    with open("/verif/seeded/RESULTS.md", "w") as f:
        f.write("# Seeded changes vs. checks\n\nEach change was produced by an independent sub-agent from the property text alone, confirmed (builds, pinned suite unchanged, demo fails with / passes without). `tools/run_seeded_fast.py` applies each patch to a scratch copy of /repo, runs every engine once (`cffverif obligations --engines all`) and maps the rules that newly fail to the properties they are registered for; `own check` = the check of the property the change was written to break (a rule that fails is reported by every property check that includes it).\n\n| id | property | own check | rules that fired (own property) | other property checks that fired | change |\n|---|---|---|---|---|---|\n")
        for r in sorted(rows):
            oth = ", ".join(k + "(" + "/".join(v) + ")" for k, v in sorted(r[5].items()))
            f.write(f"| {r[0]} | {r[1]} | {'caught' if r[2] else '**missed**'} | {', '.join(r[3])}{' +analyser undecided' if r[4] else ''} | {oth} | {r[6]} |\n")
        f.write(f"\n{sum(1 for r in rows if r[2])} of {len(rows)} caught by the check of the property they break.\n")
