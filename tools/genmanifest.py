#!/usr/bin/env python3
"""Writes /verif/MANIFEST.json from the table below and `bin/cffverif rules` (rule -> properties)."""
import json, subprocess, os, sys
V = os.path.dirname(os.path.dirname(os.path.abspath(__file__)))
rules = json.loads(subprocess.check_output([os.path.join(V, "bin/cffverif"), "rules"]))
byprop = {}
for r in rules:
    for p in r["Props"]:
        byprop.setdefault(p, []).append(r["ID"])

ENV = "GOFLAGS=-mod=mod GOPROXY=off GOSUMDB=off GOTOOLCHAIN=local GOWORK=off"
# property -> (claim text, what is NOT covered)
T = {
 "C01": ("Structural necessary conditions decided on every path of the source: loop-only ownership of job state, ready-list admission dominated by remaining==0, dispatch removes what it sends, +1/-1 countdown pairing, done flag, late-enqueue handling; in generated code every cross-job variable use is covered by a Dependencies edge.",
         "Does not decide that the countdown arithmetic is right for every DAG beyond the pairing; schedules are not enumerated (the rules are schedule-independent facts)."),
 "C02": ("Every template variant (exhaustive product over the template decision flags, abstract types pairwise distinct) renders to Go in which each user call is wired type-directed to the unique variable of each parameter type, each variable has one writing job, every reader depends on it, and Results are copied after a successful Wait.",
         "Does not cover the type printer/import synthesis for arbitrary user types, nor compile.go's provider resolution beyond the regenerated corpora."),
 "C03": ("Closed list of goroutine-creation sites (N workers in a counted loop bounded by the defaulted Concurrency, one replacement per dying worker, loop, spawner), none reachable per job; unbuffered ready channel; job.run called synchronously; default max(GOMAXPROCS,4); generated code has no go statement and runs user functions only inside job closures; Concurrency forwarded.",
         "The liveness half (N runnable tasks do run concurrently) is argued from the respawn and channel rules, not decided; goroutines created by user code are out of scope."),
 "C04": ("Every job closure of every template variant registers, before any user call, a deferred function that calls recover() directly and routes a non-nil value into *cff.PanicError{Value: recovered} via the closure's named error result (or the FallbackWith / predicate hand-over forms).",
         "Panics in user argument expressions (prologue), in user emitters, and runtime.Goexit are outside this check."),
 "C05": ("Premises of the wait-for argument, each decided on all paths: drain-on-exit, deferred closes, result arm never disabled, enqueue arm disabled only on close, death path posts and respawns, every worker iteration posts exactly one result, Wait closes then selects on ctx and finished, generated code reaches exactly one Wait.",
         "The inference from these premises to 'no interleaving deadlocks' is a hand argument (DESIGN §5 C05) and is not machine-checked; select fairness assumed."),
 "C06": ("Every blocking channel operation of a scheduler goroutine has a partner that outlives the loop: ready closed on all exits, ticker stopped, outstanding results bounded by the result-buffer capacity (dispatch gate), bounded spawner, generated code cannot skip Wait.",
         "Leaks that depend on user tasks never returning are excluded by the property's premise; no runtime goroutine count is taken."),
 "C07": ("Loop returns only with the failing result stored or under pending==0 && closed; Wait returns that error else ctx error; worker and task closures pass the user's error through unchanged; Results assignments dominated by Wait()==nil.",
         "errors.Is identity through third-party wrapping is not analysed (no wrapping call is allowed between the user's return and the scheduler's)."),
 "C08": ("Invalidation of all consumers on failure (transitively via the sentinel), invalid/ctx gates dominate run, late-enqueue check, sentinel confined and filtered before multierr.Append, ContinueOnError expression forwarded template -> SchedulerParams -> Config -> Scheduler.",
         "multierr's own round-trip behaviour is trusted."),
 "C09": ("ctx.Err()==nil dominates job.run; run gets the Enqueue ctx; Wait has a ctx.Done arm returning at once and falls back to ctx.Err(); generated code passes the directive ctx to every Enqueue/Wait and the job ctx to ctx-taking user functions.",
         "Latency is not measured; a context that becomes done between the check and the call is allowed by the property."),
 "C10": ("Per Task one job and one call; per Slice/Map one job per iteration called with per-iteration copies of index/key and value, collection expression evaluated once; End job enqueued once after the loop with Dependencies = all element jobs.",
         "Collection sizes are not enumerated: the rule is per loop body, hence size independent."),
 "C11": ("Task depends on its predicate job; user call dominated by the predicate-true edge, false edge returns nil touching no output; recover-defer precedes the gate and folds the predicate's panic; fallback assignments exactly on the err!=nil and recovered!=nil edges, clearing err.",
         "compile.go's construction of the predicate dependency is checked by G19 on the source and, behaviourally, only on the regenerated corpora (a generated family of shapes: fan-in from one provider, repeated parameter types, predicates with own/shared inputs, reversed listing)."),
 "C12": ("Ownership: loop-owned fields touched only by the loop goroutine, Scheduler.err read only after the finish receive, Enqueue touches only the new object and the channel, ScheduledJob sealed; generated shared variables single-writer with every reader ordered after the writer by Dependencies or Wait; ran is atomic.",
         "Races inside user functions are out of scope; the Go memory model's channel edges are the trusted base."),
 "C13": ("Every type handed to a type printer is first checked for nameability where the generated code is placed and what the check finds is returned before the output is written (G33); every template variant parses and type-checks under adversarial import aliases; every template field path exists; no output write before re-parse and format succeeded; compile errors abort generation; constant accessors with panicking preconditions are guarded; errors reach the exit status; no directive call is skipped by the file walker (nested directives are diagnosed: finding F10, repaired; a directive written through a dot import is diagnosed: finding F17, repaired - G39); package names handed to the templates are looked up in the directive's scope (finding F11, repaired); no name of the user's program that the generated code spells (a type, a package, a predeclared identifier) is captured by a declaration in whose scope it is spelled - the generator's own code, evaluated on directives with such names, ends in a diagnostic (T6; findings F15, F16, repaired); every regenerated corpus package type-checks and holds no directive call.",
         "Printing of arbitrary user types is covered on the corpus programs only (DESIGN §5 C13)."),
 "C14": ("All validators run on every path before scheduling/generation and any diagnostic aborts; duplicate-provider results are tested; diagnostics are positioned; Slice/Map assignability is tested in the direction of the generated call; the cycle search keeps the memo discipline of a sound memoised DFS (post-order memo, or path test first under the memo's key); the generator's synthetic sentinel types (Invoke / Predicate families) are structurally disjoint and numbered apart; the validators' memo keys are total over the nodes searched; user types are classified by their underlying type (named map/function/pointer types were refused on the pinned tree: finding F9, repaired); every flow of the regenerated corpora (well-formed by construction) is accepted, and every program of the reject corpus (ill-formed in one way each, or a spelling cff cannot expand) is refused with a positioned diagnostic and no output (V25).",
         "Completeness of the BFS (every missing provider / unused input reported) and acceptance of every well-formed flow beyond these premises is NOT decided: a property of graph algorithms over all graphs."),
 "C15": ("Every ast.Expr-typed template value is printed through the hoisting printer (raw printer only in the prologue); the printer records before naming; prologue sorted by position and written before the staged body.",
         "Evaluation order among the hoisted definitions relies on Go's statement order; user expressions that are the literal nil or synthetic (auto-instrument names) are printed in place by design."),
 "C16": ("Closed list of file-writing calls whose path flows from the output-path parameter; constraint inversion is a structural recursion visiting every constraint.Expr child and altering only cff tags; source bytes between directives are copied by a chained offset walk.",
         "`// +build` multi-line regrouping and gofmt interplay are NOT decided."),
 "C17": ("Non-interference: no map-iteration order, randomness, time, environment, goroutine/select or package-level mutable state can flow to output; the random token flows only to comment text that is replaced.",
         "Nondeterminism inside go/packages is outside the analysed code."),
 "C18": ("Path-sensitive event typestate on every instrumented variant: Done deferred first; exactly one of Success/Error(err) before each return with err the returned one; per task exactly one outcome event and one TaskDone per invocation; skipped sweep covers every task; emitter stacks forward each method once per element with all arguments.",
         "-auto-instrument name synthesis and emitters that themselves panic are not covered."),
 "C19": ("The state ticker exists only with an emitter and its interval is the configured frequency or a positive default (S31); conservation law pending = |ready| + waiting + ongoing by effect summary of every path through every select arm (helpers of the loop summarised as a whole); State literal fed by the right counters; Emit only inside the loop body; executing <= Concurrency through the dispatch gate; parameter plumbing.",
         "'Pending <= submitted' and 'Waiting <= submitted-with-deps' follow from conservation and non-negativity but are not separately discharged."),
 "C20": ("Modifier-mode functions are generated at package level: every type they name is checked to be nameable there (G33); the source-map flag guards only statements that emit comment tokens and both modes share one template set; modifier templates satisfy the same structural obligations as their base siblings and type-check; on a regenerated modifier-mode corpus inside the supported subset every generated flow function meets the base-mode obligations (dependencies, wiring, panic guard, error pass-through, ctx, Wait discipline), every directive argument reaches its hoisted name unchanged through call site, helper and prologue, the output type-checks and adds nothing but the generated functions; generated package-level names are injective in (file, line, column).",
         "Behavioural equality of modifier and base output is NOT decided."),
}
PENDING = "no rule of the static rule set for this property is implemented yet in this revision of /verif (see DESIGN.md §0); it is not claimed until its check exists"

checks, na = [], []
for pid in sorted(T):
    text, notcov = T[pid]
    rs = byprop.get(pid, [])
    if not rs:
        na.append({"property_id": pid, "reason": PENDING})
        continue
    checks.append({
        "property_id": pid,
        "quick_cmd": f"cd /verif && {ENV} bin/cffverif check {pid} --tier quick",
        "thorough_cmd": f"cd /verif && {ENV} bin/cffverif check {pid} --tier thorough",
        "evidence_file": f"/verif/evidence/{pid}.json",
        "replay_cmd_template": "cat {path}",
        "engine": "cffverif",
        "level_claimed": {"category": "other", "text": text + " Rules in this revision: " + ", ".join(rs) + ".", "design_ref": f"DESIGN.md §5 {pid}, §4"},
        "level_note": "Static analysis only. Scheduler and emitter-stack rules are evaluated on go/ssa (value identity by def-use, conditions as dominating conditional edges, natural loops; helpers with one call site are analysed in the context of that call); generator rules on the type-checked AST; templates are expanded over an abstract domain (the generator's own template-driving code and template functions are read by an abstract interpreter over their syntax trees, user expressions and types being opaque tokens; nothing of /repo is compiled or run for this) and type-checked; generated code of the corpus is analysed, never run. Decides structural necessary conditions, not the runtime behaviour itself. NOT covered: " + notcov + " A rule whose code shape is not recognised reports 'undecided' (counts as failure) rather than passing.",
        "technique": "static analysis: repository-specific structural rules (ownership, dominance of conditional edges, pairing, path-effect summaries, who-may-call) over go/ssa and the type-checked AST of /repo; exhaustive template-variant expansion (abstract interpretation of the generator's source over opaque expression/type tokens) + go/types; static translation validation of regenerated corpus code against an independent reading of the source directive",
    })
m = {
 "version": 1,
 "setup_cmd": f"cd /verif && {ENV} go build -o bin/cffverif ./cmd/cffverif",
 "hooks": {"guard": "verif", "enable": "none needed: the analysis reads /repo's sources; no guarded code exists in /repo", "baseline_off_cmd": json.load(open("/root/.vp/BASELINE.json"))["cmd"], "source_commits": [], "add_only": True},
 "engines": [{"name": "cffverif", "path": "/verif/cmd/cffverif", "serves_properties": [c["property_id"] for c in checks], "kind_free_text": "custom static analyser (Go, golang.org/x/tools v0.29.0): rule engines sched/lib/tmpl/variants/gen/genlint over /repo's type-checked source and templates"}],
 "checks": checks,
 "not_applicable": na,
 "notes": "Known findings and fixed defects: /verif/known_findings.json. Checker self-test (seeded mutants and benign edits on scratch copies): bin/cffverif selftest.",
}
json.dump(m, open(os.path.join(V, "MANIFEST.json"), "w"), indent=1)
print("claimed:", [c["property_id"] for c in checks], "n/a:", [x["property_id"] for x in na])
