#!/usr/bin/env python3
"""Runs every registered quick check against every seeded change (scratch copy of /repo + patch) and writes seeded/RESULTS.md."""
import json, os, subprocess, sys, tempfile, shutil, re, glob, concurrent.futures
env = dict(os.environ, GOFLAGS="-mod=mod", GOPROXY="off", GOSUMDB="off", GOTOOLCHAIN="local")
man = json.load(open("/verif/MANIFEST.json"))
def one(seed):
    meta = json.load(open(os.path.join(seed, "meta.json")))
    tmp = tempfile.mkdtemp(prefix="seedchk-")
    flagged = {}
    try:
        sc = os.path.join(tmp, "repo")
        subprocess.run(f"rsync -a --exclude .git /repo/ {sc}/ && cd {sc} && git init -q . && git apply {seed}/patch.diff", shell=True, check=True)
        for c in man["checks"]:
            p = subprocess.run(c["quick_cmd"], shell=True, capture_output=True, text=True, env=dict(env, CFFVERIF_REPO=sc, CFFVERIF_DIR=tmp))
            if p.returncode != 0:
                flagged[c["property_id"]] = sorted(set(re.findall(r"^(?:VIOLATED|UNDECIDED) .*? \[([A-Z]+\d*)\]", p.stdout, re.M)))
    finally:
        shutil.rmtree(tmp, ignore_errors=True)
    return meta, flagged
seeds = sorted(glob.glob("/verif/seeded/C*"))
if len(sys.argv) > 1:
    seeds = [s for s in seeds if any(a in s for a in sys.argv[1:])]
rows = []
def others(d):
    return ", ".join(k + "(" + "/".join(v) + ")" for k, v in sorted(d.items()))
with concurrent.futures.ThreadPoolExecutor(max_workers=4) as ex:
    for meta, flagged in ex.map(one, seeds):
        own = meta["property"]
        rows.append((meta["id"], own, own in flagged, flagged.get(own, []), {k: v for k, v in flagged.items() if k != own}, meta.get("summary", "")[:160].replace("\n", " ").replace("|", "/")))
        print(meta["id"], "CAUGHT" if own in flagged else "MISSED", flagged.get(own), flush=True)
if len(sys.argv) == 1:
    with open("/verif/seeded/RESULTS.md", "w") as f:
        f.write("# Seeded changes vs. checks\n\nEach change was produced by an independent sub-agent from the property text alone, confirmed (builds, pinned suite unchanged, demo fails with / passes without), then every registered quick check was run against a scratch copy of /repo with the patch applied. `own check` = the check of the property the change was written to break.\n\n| id | property | own check | rules that fired (own property) | other property checks that fired | change |\n|---|---|---|---|---|---|\n")
        for r in rows:
            f.write(f"| {r[0]} | {r[1]} | {'caught' if r[2] else '**missed**'} | {', '.join(r[3])} | {others(r[4])} | {r[5]} |\n")
        f.write(f"\n{sum(1 for r in rows if r[2])} of {len(rows)} caught by the check of the property they break.\n")
