#!/usr/bin/env python3
"""mutsweep.py <file relative to /repo> <engines> [--tests 'go test args'] [-j N]
Development aid: applies every mutgen mutation of the file to a scratch copy of /repo, keeps those that build,
runs `cffverif obligations --engines <engines>` and prints the SURVIVORS (mutants no rule reports) with
whether the project's own tests kill them. Scratch copies live under /tmp and are removed."""
import json, os, subprocess, sys, tempfile, shutil, concurrent.futures as cf
args = sys.argv[1:]
rel, engines = args[0], args[1]
tests = None
jobs = 6
if '--tests' in args:
    tests = args[args.index('--tests') + 1]
if '-j' in args:
    jobs = int(args[args.index('-j') + 1])
root = os.path.dirname(os.path.dirname(os.path.abspath(__file__)))
REPO = os.environ.get('CFFVERIF_SWEEP_REPO', '/repo')  # the tree the mutants are made of
env = dict(os.environ, GOFLAGS='-mod=mod', GOPROXY='off', GOSUMDB='off', GOTOOLCHAIN='local', GOWORK='off', GOCACHE=os.environ.get('GOCACHE', '/tmp/gocache_verif'))
muts = json.loads(subprocess.check_output([os.path.join(root, 'bin/mutgen'), os.path.join(REPO, rel)]))
src = open(os.path.join(REPO, rel), 'rb').read()

def run(m):
    d = tempfile.mkdtemp(prefix='mutsweep.', dir='/tmp')
    try:
        subprocess.check_call(['rsync', '-a', '--exclude', '.git', REPO + '/', d + '/repo/'])
        new = src[:m['start']] + m['new'].encode() + src[m['end']:]
        open(os.path.join(d, 'repo', rel), 'wb').write(new)
        pkgdir = os.path.dirname(rel) or '.'
        b = subprocess.run(['go', 'build', './...'], cwd=d + '/repo', env=env, capture_output=True)
        v = subprocess.run(['go', 'vet', './' + pkgdir], cwd=d + '/repo', env=env, capture_output=True)
        if b.returncode != 0:
            return (m, 'nobuild', None)
        e2 = dict(env, CFFVERIF_REPO=d + '/repo', CFFVERIF_DIR=d)
        o = subprocess.run([os.environ.get('CFFVERIF_BIN', os.path.join(root, 'bin/cffverif')), 'obligations', '--engines', engines], env=e2, capture_output=True)
        try:
            obl = json.loads(o.stdout)
        except Exception:
            return (m, 'engine-error', o.stderr.decode()[:300])
        bad = sorted({x['rule'] for x in obl if x['status'] != 'discharged' and x['key'] != 'floor'})
        if bad:
            return (m, 'reported', bad)
        killed = None
        if tests:
            t = subprocess.run('go test -count=1 -vet=off ' + tests, shell=True, cwd=d + '/repo', env=env, capture_output=True, timeout=600)
            killed = t.returncode != 0
        return (m, 'SURVIVED', killed)
    except subprocess.TimeoutExpired:
        return (m, 'SURVIVED', 'timeout')
    finally:
        shutil.rmtree(d, ignore_errors=True)

res = []
with cf.ThreadPoolExecutor(jobs) as ex:
    for m, st, info in ex.map(run, muts):
        res.append((m, st, info))
        if st == 'SURVIVED':
            print(f"SURVIVED #{m['id']} {m['kind']} {m['func']} L{m['line']}: {m['old'][:70]!r} -> {m['new'][:70]!r} tests_kill={info}", flush=True)
        elif st == 'engine-error':
            print(f"ENGINE-ERROR #{m['id']} {m['kind']} L{m['line']}: {info}", flush=True)
import collections
print(collections.Counter(st for _, st, _ in res))
