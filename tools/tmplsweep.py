#!/usr/bin/env python3
"""tmplsweep.py <engines> [-j N] [files...]: development aid like mutsweep.py, for the template files: deletes each
non-blank line in turn (and negates each `{{ if X }}`), runs `cffverif obligations --engines <engines>` on a scratch
copy and lists the mutants nothing reports. Scratch copies live under /tmp and are removed."""
import glob, json, os, re, shutil, subprocess, sys, tempfile, concurrent.futures as cf
args = sys.argv[1:]
engines = args[0]
jobs = 5
files = []
i = 1
while i < len(args):
    if args[i] == '-j':
        jobs = int(args[i + 1]); i += 2
    else:
        files.append(args[i]); i += 1
root = os.path.dirname(os.path.dirname(os.path.abspath(__file__)))
if not files:
    files = sorted(glob.glob('/repo/internal/templates/*/*.tmpl') + glob.glob('/repo/internal/modifier/templates/*.tmpl'))
files = [os.path.relpath(f, '/repo') if f.startswith('/repo/') else f for f in files]
env = dict(os.environ, GOFLAGS='-mod=mod', GOPROXY='off', GOSUMDB='off', GOTOOLCHAIN='local', GOWORK='off', GOCACHE=os.environ.get('GOCACHE', '/tmp/gocache_verif'))
muts = []
for rel in files:
    lines = open(os.path.join('/repo', rel)).read().split('\n')
    for k, l in enumerate(lines):
        if not l.strip() or l.strip().startswith('{{/*') or l.strip().startswith('//'):
            continue
        muts.append((rel, k, 'delete', None))
        m = re.search(r'\{\{-?\s*(if|else if)\s+(?!not\b)([^}]+?)\s*-?\}\}', l)
        if m:
            muts.append((rel, k, 'negate', l[:m.start(2)] + 'not (' + m.group(2) + ')' + l[m.end(2):]))

def run(mu):
    rel, k, kind, repl = mu
    d = tempfile.mkdtemp(prefix='tmplsweep.', dir='/tmp')
    try:
        subprocess.check_call(['rsync', '-a', '--exclude', '.git', '/repo/', d + '/repo/'])
        p = os.path.join(d, 'repo', rel)
        lines = open(p).read().split('\n')
        old = lines[k]
        if kind == 'delete':
            del lines[k]
        else:
            lines[k] = repl
        open(p, 'w').write('\n'.join(lines))
        e2 = dict(env, CFFVERIF_REPO=d + '/repo', CFFVERIF_DIR=d)
        o = subprocess.run([os.environ.get('CFFVERIF_BIN', os.path.join(root, 'bin/cffverif')), 'obligations', '--engines', engines], env=e2, capture_output=True)
        try:
            obl = json.loads(o.stdout)
        except Exception:
            return (mu, old, 'engine-error', o.stderr.decode()[:200])
        bad = sorted({x['rule'] for x in obl if x['status'] != 'discharged' and x['key'] != 'floor'})
        return (mu, old, 'reported' if bad else 'SURVIVED', bad)
    finally:
        shutil.rmtree(d, ignore_errors=True)

import collections
cnt = collections.Counter()
with cf.ThreadPoolExecutor(jobs) as ex:
    for mu, old, st, info in ex.map(run, muts):
        cnt[st] += 1
        if st != 'reported':
            print(f"{st} {mu[0]}:{mu[1]+1} {mu[2]}: {old.strip()[:110]!r} {info if st!='SURVIVED' else ''}", flush=True)
print(cnt)
